#!/bin/bash
# usage: tools/run_mutants.sh <glob of mutant names> C01 C02 ...   -- prints one line per (mutant, property)
G=$1; shift
cd "$(dirname "$0")/.."
./setup.sh >/dev/null 2>&1
for m in mutants/$G.patch; do tools/mutate.sh $m "$@"; done
