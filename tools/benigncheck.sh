#!/bin/bash
# Run our checks against a behaviour-preserving change (a patch after which the properties still hold).
#   usage: tools/benigncheck.sh <patch.diff> <Cxx> [more Cxx...]
# Any VIOLATION or ERROR here is a false alarm of the machinery (or the patch is not benign after all: judge by hand).
# /repo is never modified: the patch is applied to a scratch worktree under /tmp, removed on exit.
set -u
PATCH=$(realpath "$1"); shift
VERIF=$(cd "$(dirname "$0")/.." && pwd)
SCR=$(mktemp -d /tmp/frigg-benign.XXXXXX)
trap 'git -C /repo worktree remove --force "$SCR/wt" >/dev/null 2>&1; rm -rf "$SCR"' EXIT
# a patch that was made against an earlier commit of /repo says so in the meta.json next to it ("applies_to")
BASE=HEAD
META="$(dirname "$PATCH")/meta.json"
if [ -f "$META" ]; then B=$(python3 -c "import json,sys; print(json.load(open(sys.argv[1])).get('applies_to',''))" "$META" 2>/dev/null); [ -n "$B" ] && BASE=$B; fi
git -C /repo worktree add -q --detach "$SCR/wt" $BASE || exit 2
if ! git -C "$SCR/wt" apply "$PATCH"; then echo "BENIGN $PATCH: patch does not apply"; exit 2; fi
echo "BENIGN $PATCH: $(git -C "$SCR/wt" diff --stat | tail -1)"
if meson setup "$SCR/wt/_build" "$SCR/wt" >/dev/null 2>&1 && meson test -C "$SCR/wt/_build" >"$SCR/test.log" 2>&1; then echo "  existing tests: pass"; else echo "  existing tests: FAIL (patch rejected)"; tail -5 "$SCR/test.log"; fi
for P in "$@"; do
	out=$(cd "$VERIF" && VERIF_FOUND_DIR="$SCR/found" FRIGG_ROOT="$SCR/wt" VERIF_SEED=${VERIF_SEED:-1} ./check "$P" --tier "${TIER:-quick}" 2>&1); rc=$?
	if [ $rc -eq 0 ] && ! echo "$out" | grep -q "^VIOLATION\|^ERROR"; then echo "  check $P: silent ($(echo "$out" | tail -1))"
	else
		echo "  check $P: ALARM rc=$rc"
		echo "$out" | grep -B14 "^VIOLATION\|^ERROR" | head -60 | sed 's/^/      /'
		if [ -n "${KEEP:-}" ]; then mkdir -p "$KEEP"; for tp in $(echo "$out" | grep "^VIOLATION" | sed 's/.*replay=//'); do [ -f "$tp" ] && cp "$tp" "$KEEP/"; done; fi
	fi
done
