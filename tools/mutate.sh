#!/bin/bash
# Sensitivity runs (DESIGN.md section 6): apply one patch to a scratch copy of /repo's headers,
# run the quick (or $TIER) check of the named properties against it, report whether each raises
# a VIOLATION, and delete the copy.     usage: tools/mutate.sh mutants/<name>.patch C01 [C02 ...]
set -u
PATCH=$(realpath "$1"); shift
VERIF=$(cd "$(dirname "$0")/.." && pwd)
SCR=$(mktemp -d /tmp/frigg-mut.XXXXXX)
trap 'rm -rf "$SCR"' EXIT
cp -r /repo/include "$SCR/include"
if ! (cd "$SCR" && patch -p1 -s < "$PATCH"); then echo "MUTANT $(basename $PATCH): patch does not apply"; exit 2; fi
rc=0
for P in "$@"; do
	out=$(cd "$VERIF" && VERIF_FOUND_DIR="$SCR/found" FRIGG_ROOT="$SCR" VERIF_SEED=${VERIF_SEED:-1} ./check "$P" --tier "${TIER:-quick}" 2>&1)
	if echo "$out" | grep -q "^VIOLATION property=$P"; then echo "MUTANT $(basename $PATCH) $P: caught  ($(echo "$out" | grep -B1 '^VIOLATION' | head -1 | cut -c1-160))";
	elif echo "$out" | grep -q "^ERROR"; then echo "MUTANT $(basename $PATCH) $P: ERROR ($(echo "$out" | grep '^ERROR' | head -1 | cut -c1-160))"; rc=1;
	else echo "MUTANT $(basename $PATCH) $P: MISSED ($(echo "$out" | tail -1))"; rc=1; fi
done
exit $rc
