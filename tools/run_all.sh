#!/bin/bash
# runs every check of the given tier (default quick) on /repo and prints one line per property
cd "$(dirname "$0")/.."
TIER=${1:-quick}
for i in $(seq -w 1 20); do
	P=C$i
	out=$(./check $P --tier $TIER 2>&1); rc=$?
	echo "$P rc=$rc $(echo "$out" | grep -E "^(VIOLATION|ERROR|KNOWN-FINDING)" | cut -c1-150 | tr '\n' '|') $(echo "$out" | tail -1)"
done
