#!/bin/bash
# usage: tools/mkmutant.sh <name> <file under include/frg> <python-expr replacing text: old|||new>
set -e
NAME=$1; FILE=$2; OLD=$3; NEW=$4
SCR=$(mktemp -d /tmp/frigg-mk.XXXXXX); trap 'rm -rf "$SCR"' EXIT
mkdir -p $SCR/a/include/frg $SCR/b/include/frg
cp /repo/include/frg/$FILE $SCR/a/include/frg/$FILE
OLD="$OLD" NEW="$NEW" python3 - "$SCR/a/include/frg/$FILE" "$SCR/b/include/frg/$FILE" <<'PY'
import sys, os
s = open(sys.argv[1]).read()
old, new = os.environ['OLD'], os.environ['NEW']
if s.count(old) != 1:
    sys.exit('pattern occurs %d times' % s.count(old))
open(sys.argv[2], 'w').write(s.replace(old, new))
PY
(cd $SCR && diff -u a/include/frg/$FILE b/include/frg/$FILE > "$OLDPWD/mutants/$NAME.patch" || true)
echo "mutants/$NAME.patch: $(grep -c '^[-+][^-+]' mutants/$NAME.patch) changed lines"
