#!/bin/bash
# Re-run every kept seeded change (seeded/<id>) against the quick check of the property it targets and report the ones that are
# no longer caught. Seeds whose meta.json says they are not claimed / caught by a sibling only are listed separately.
#   usage: tools/seed_regression.sh [lanes]      (default 4 lanes; ~1.5 min per seed and lane)
#   REFRESH=1: the counter-example found for each seed replaces its regression tape replays/<Cxx>/<harness>-seed-<id>.tape (tapes decode
#   differently after the generators were extended; a tape that no longer shows its seed is only dead weight)
cd "$(dirname "$0")/.."
LANES=${1:-4}
OUT=$(mktemp -d /tmp/frigg-seedreg.XXXXXX)
ls -d seeded/S*-C* | sort > $OUT/all
split -n l/$LANES -d $OUT/all $OUT/lane.
for f in $OUT/lane.*; do
  ( while read d; do
      P=$(python3 -c "import json;print(json.load(open('$d/meta.json'))['breaks_property'])")
      extra=$(python3 -c "
import json; m=json.load(open('$d/meta.json')); o=m.get('outcome','')
import re
s=re.search(r'sibling (?:check )?(C\d+)', o) or re.search(r'Caught by (C\d+)', o)
print(s.group(1) if s and 'not caught by' in o else '')")
      id=$(basename $d)
      res=$(SAVE=${REFRESH:+$id} tools/seedcheck.sh $d $P $extra 2>&1 | grep "check C" | tr '\n' ' ' | cut -c1-200)
      echo "$d $res"
    done < $f > $f.out ) &
done
wait
cat $OUT/lane.*.out | sort > seed_regression.last.txt
grep -v "caught" seed_regression.last.txt
echo "$(grep -c caught seed_regression.last.txt) of $(wc -l < $OUT/all) seeds caught; full list in seed_regression.last.txt"
rm -rf $OUT
