#!/bin/bash
# Confirm a seeded change produced by an independent sub-agent and run our checks against it.
#   usage: tools/seedcheck.sh <seed dir containing OUT/patch.diff, OUT/demo.cpp, OUT/run.sh> <Cxx> [more Cxx...]
# Steps: (1) the patch applies to /repo's HEAD, (2) the existing test suite still passes with it,
# (3) the demonstration fails with the change and passes without it, (4) our quick checks of the
# named properties run against the patched headers (scratch copy; /repo is never modified).
set -u
SEED=$(realpath "$1"); shift
# the seed's files are either in <dir>/OUT (fresh from a sub-agent) or in <dir> itself (/verif/seeded/<id>)
if [ -d "$SEED/OUT" ]; then OUT="$SEED/OUT"; else OUT="$SEED"; fi
VERIF=$(cd "$(dirname "$0")/.." && pwd)
SCR=$(mktemp -d /tmp/frigg-seed.XXXXXX)
trap 'git -C /repo worktree remove --force "$SCR/wt" >/dev/null 2>&1; rm -rf "$SCR"' EXIT
git -C /repo worktree add -q --detach "$SCR/wt" HEAD || exit 2
cp -r "$SCR/wt/include" "$SCR/orig-include"
if ! git -C "$SCR/wt" apply "$OUT/patch.diff"; then echo "SEED $(basename $SEED): patch does not apply"; exit 2; fi
echo "SEED $(basename $SEED): $(git -C "$SCR/wt" diff --stat | tail -1)"
# (2) existing tests
if meson setup "$SCR/wt/_build" "$SCR/wt" >/dev/null 2>&1 && meson test -C "$SCR/wt/_build" >"$SCR/test.log" 2>&1; then echo "  existing tests: pass"; else echo "  existing tests: FAIL (seed rejected)"; tail -5 "$SCR/test.log"; fi
# (3) demonstration
if [ -f "$OUT/run.sh" ]; then
	(cd "$OUT" && timeout 600 bash ./run.sh "$SCR/wt/include" >"$SCR/demo-changed.log" 2>&1); rc1=$?
	(cd "$OUT" && timeout 600 bash ./run.sh "$SCR/orig-include" >"$SCR/demo-orig.log" 2>&1); rc2=$?
	echo "  demonstration: changed tree rc=$rc1, unchanged tree rc=$rc2 $([ $rc1 -ne 0 ] && [ $rc2 -eq 0 ] && echo '(confirmed)' || echo '(NOT confirmed)')"
fi
# (4) our checks
for P in "$@"; do
	out=$(cd "$VERIF" && VERIF_FOUND_DIR="$SCR/found" FRIGG_ROOT="$SCR/wt" VERIF_SEED=${VERIF_SEED:-1} ./check "$P" --tier "${TIER:-quick}" 2>&1)
	if echo "$out" | grep -q "^VIOLATION property=$P" && [ -n "${SAVE:-}" ]; then
		# keep the shrunk counter-example as a regression tape (seconds-long replay tier)
		tp=$(echo "$out" | grep "^VIOLATION property=$P" | head -1 | sed 's/.*replay=//'); mkdir -p "$VERIF/replays/$P"
		[ -f "$tp" ] && cp "$tp" "$VERIF/replays/$P/$(basename "$tp" | cut -d- -f1)-seed-$SAVE.tape"
	fi
	if echo "$out" | grep -q "^VIOLATION property=$P"; then echo "  check $P: caught  ($(echo "$out" | grep -B2 '^VIOLATION' | head -1 | cut -c1-170))"
	elif echo "$out" | grep -q "^ERROR"; then echo "  check $P: ERROR ($(echo "$out" | grep '^ERROR' | head -1 | cut -c1-170))"
	else echo "  check $P: MISSED ($(echo "$out" | tail -1))"; fi
done
