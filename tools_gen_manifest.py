#!/usr/bin/env python3
"""Regenerates MANIFEST.json from engine/checks_config.py (the single source of truth for which
properties are claimed) and validates it against the schema."""
import json, sys, os, subprocess
sys.path.insert(0, os.path.join(os.path.dirname(os.path.abspath(__file__)), 'engine'))
import checks_config as CFG

ALL = ['C%02d' % i for i in range(1, 21)]
checks = []
for pid in ALL:
    if pid not in CFG.PROPS:
        continue
    p = CFG.PROPS[pid]
    c = {
        'property_id': pid,
        'quick_cmd': './check %s --tier quick' % pid,
        'thorough_cmd': './check %s --tier thorough' % pid,
        'evidence_file': '/verif/evidence/%s.json' % pid,
        'replay_cmd_template': './check %s --replay {path}' % pid,
        'engine': 'tape-harness',
        'level_claimed': {'category': p.get('level', 'exploration'), 'text': p['level_text'], 'design_ref': p.get('design_ref', 'DESIGN.md section 3, ' + pid)},
        'level_note': p['level_note'],
        'technique': p['technique'],
    }
    checks.append(c)
na = [{'property_id': pid, 'reason': CFG.NOT_APPLICABLE.get(pid, 'check not built yet in this session; no claim is made')} for pid in ALL if pid not in CFG.PROPS]
m = {
    'version': 1,
    'setup_cmd': './setup.sh',
    'hooks': {
        'guard': 'FRG_VERIF',
        'enable': 'no hooks: every observation point is reached through template parameters (Policy, Mutex, Allocator, Hash, Compare, Sink), public hook structs and preprocessor interposition that lives in /verif (DESIGN.md 1.7); -DFRG_VERIF is therefore never needed',
        'baseline_off_cmd': 'meson test -C /repo/_build',
        'source_commits': [],
        'add_only': True,
    },
    'engines': [
        {'name': 'tape-harness', 'path': 'engine/', 'serves_properties': [c['property_id'] for c in checks],
         'kind_free_text': 'property-based testing: rapidcheck-generated and -shrunk choice tapes decoded into operation histories / inputs / schedules / fault plans, small-scope enumerators and libFuzzer campaigns over the same decoder, judged by reference models and history invariants; ASan/UBSan/TSan reports are turned into case failures'},
    ],
    'checks': checks,
    'not_applicable': na,
    'notes': 'Driver: ./check <Cxx> --tier quick|thorough (VERIF_SEED respected). Known findings: known_findings.json. Design: DESIGN.md.',
}
json.dump(m, open(os.path.join(os.path.dirname(os.path.abspath(__file__)), 'MANIFEST.json'), 'w'), indent=1)
try:
    import jsonschema
    jsonschema.validate(m, json.load(open('/root/.vp/MANIFEST.schema.json')))
    print('MANIFEST.json valid,', len(checks), 'checks,', len(na), 'not_applicable')
except ImportError:
    print('jsonschema not importable in this python; wrote MANIFEST.json unvalidated')
