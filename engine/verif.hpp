// verif engine runtime: tape decoding, case context, failure capture, evidence counters and the
// process entry point shared by every harness (see DESIGN.md section 1).
//
// A harness is one translation unit that
//   #include "verif.hpp"            (after the frigg headers it tests, or before - no dependency)
//   defines   const char *verif_harness = "name";
//             void verif_case(verif::Ctx &c);          // decode c.t, run, apply the oracle
//   optional  void verif_enum(verif::Enum &e);          // systematic small-scope enumeration
//   optional  void verif_case_reset();                  // drop per-case global state
//
// Front ends (all feed the same decoder):
//   --rc       rapidcheck search over tapes (engine/rc_driver.cpp, prebuilt)
//   --enum     the harness's enumerator
//   --replay F one saved tape
//   libFuzzer  (-DVERIF_LIBFUZZER) bytes -> tape
#pragma once
#include <cstdint>
#include <setjmp.h>
#include <cstdio>
#include <cstdlib>
#include <cstring>
#include <cstdarg>
#include <string>
#include <vector>
#include <map>
#include <unordered_set>
#include <exception>
#include <functional>
#include <unistd.h>
#include <fcntl.h>
#include <signal.h>
#include <pthread.h>
#include <time.h>
#include <sys/time.h>

extern const char *verif_harness;

namespace verif {

struct Fail {            // oracle says no
	std::string prop, msg;
};
// see frg_panic() below and guarded()
inline thread_local sigjmp_buf *g_panic_jmp = nullptr;
inline thread_local const char *g_panic_msg = nullptr;
// runs f(); returns 1 if it ended in the assertion hook (frames between the hook and here are abandoned, not unwound), 0 if it returned
// (2: a callback of the harness - a sink that has seen enough output - left through leave_guarded())
template<typename F> __attribute__((noinline)) int guarded(F &&f) {
	sigjmp_buf jb; sigjmp_buf *prev = g_panic_jmp;
	int how = sigsetjmp(jb, 0);
	if(how == 0) { g_panic_jmp = &jb; f(); g_panic_jmp = prev; return 0; }
	g_panic_jmp = prev; return how;
}
inline bool in_guarded() { return g_panic_jmp != nullptr; }
[[noreturn]] inline void leave_guarded() { siglongjmp(*g_panic_jmp, 2); }
struct Panic {           // frg_panic (FRG_ASSERT) fired
	std::string msg;
};
struct Discard {         // case left the accepted domain for a documented reason; not counted
	std::string why;
};

struct Tape {
	const uint32_t *p = nullptr;
	size_t n = 0, i = 0;
	bool done() const { return i >= n; }
	uint32_t next() { return i < n ? p[i++] : 0; }
	// value in [0, k); 0 when the tape is exhausted (simplest choice first)
	uint32_t pick(uint32_t k) { return k ? next() % k : 0; }
	// value in [lo, hi]
	int64_t range(int64_t lo, int64_t hi) { return lo + (int64_t)(next() % (uint64_t)(hi - lo + 1)); }
	uint64_t next64() { uint64_t a = next(); uint64_t b = next(); return (a << 32) | b; }
	bool flip() { return next() & 1; }
};

struct Stats {
	uint64_t cases = 0, passed = 0, failed = 0, discarded = 0, foreign = 0, panics_allowed = 0;
	std::unordered_set<uint64_t> nontrivial;
	uint64_t nontrivial_total = 0;
	std::map<std::string, uint64_t> tags;
	std::map<std::string, uint64_t> known;        // known-finding id -> hits
	std::map<std::string, std::string> known_what;
	std::vector<std::string> samples;
	std::map<std::string, uint64_t> enum_scopes;  // scope name -> tapes (complete enumeration)
	std::map<std::string, std::string> notes;
};

inline Stats &stats() { static Stats *s = new Stats; return *s; }    // never destroyed: exit-time hooks (atexit, sanitizer death callback) still use it

struct Config {
	std::string focus;                // property id the run is deciding
	std::string out;                  // path prefix for outputs
	std::vector<std::string> known;   // known-finding ids with status "known"
	std::string tier = "quick";
	bool verbose = false;
	int journal_fd = -1;
};
inline Config &config() { static Config *c = new Config; return *c; }

inline uint64_t fnv1a(const std::string &s, uint64_t h = 1469598103934665603ull) {
	for(unsigned char ch : s) { h ^= ch; h *= 1099511628211ull; }
	return h;
}

// Sanitizer report flags (set by callbacks, turned into logical failures by the engine).
struct SanFlags { int asan = 0, ubsan = 0, tsan = 0; std::string asan_text; bool expect_asan = false; };
inline SanFlags &san() { static SanFlags *f = new SanFlags; return *f; }
inline int g_tsan_reports = 0;      // bumped by __tsan_on_report (atomically)

struct Ctx {
	Tape t;
	std::string desc;                 // decoded, human readable case
	bool nontrivial = false;
	std::vector<std::string> tags;
	std::vector<std::pair<void *, void (*)(void *)>> arena;   // raw blocks of subjects
	bool desc_full = false;

	const std::string &focus() const { return config().focus; }
	bool focused(const char *prop) const { return config().focus.empty() || config().focus == prop; }

	void op(const char *fmt, ...) __attribute__((format(printf, 2, 3))) {
		if(desc.size() > 6000) { if(!desc_full) { desc += " ..."; desc_full = true; } return; }
		char buf[512];
		va_list ap; va_start(ap, fmt); vsnprintf(buf, sizeof buf, fmt, ap); va_end(ap);
		if(!desc.empty()) desc += "; ";
		desc += buf;
		if(config().verbose) fprintf(stderr, "op: %s\n", buf);
	}
	void tag(const char *name) {
		for(auto &s : tags) if(s == name) return;
		tags.emplace_back(name);
	}
	void tagf(const char *fmt, ...) __attribute__((format(printf, 2, 3))) {
		char buf[128];
		va_list ap; va_start(ap, fmt); vsnprintf(buf, sizeof buf, fmt, ap); va_end(ap);
		tag(buf);
	}
	[[noreturn]] void fail(const char *prop, const char *fmt, ...) __attribute__((format(printf, 3, 4))) {
		char buf[1024];
		va_list ap; va_start(ap, fmt); vsnprintf(buf, sizeof buf, fmt, ap); va_end(ap);
		throw Fail{prop, buf};
	}
	[[noreturn]] void discard(const char *why) { throw Discard{why}; }

	// The harness observed exactly the as-is behaviour of known finding `id` on an input inside
	// that finding's class. If the finding is listed (status "known") it is counted and the
	// search goes on; otherwise it is an ordinary violation of `prop`.
	bool known_active(const char *id) const {
		for(auto &k : config().known) if(k == id) return true;
		return false;
	}
	void known(const char *id, const char *prop, const char *fmt, ...) __attribute__((format(printf, 4, 5))) {
		char buf[1024];
		va_list ap; va_start(ap, fmt); vsnprintf(buf, sizeof buf, fmt, ap); va_end(ap);
		if(known_active(id)) {
			stats().known[id]++;
			if(!stats().known_what.count(id)) stats().known_what[id] = buf;
			return;
		}
		throw Fail{prop, std::string("[") + id + "] " + buf};
	}

	// Subjects live in raw storage owned by the case; on abnormal case end no destructor runs.
	template<typename T, typename... A> T *make(A &&... a) {
		void *m = aligned_alloc(alignof(T) < 16 ? 16 : alignof(T), (sizeof(T) + 15) & ~size_t(15));
		arena.push_back({m, nullptr});
		// Without arguments the object is default-initialised (`T x;`, not `T x{}`) in storage that holds 0xA5 bytes: a member that the
		// default constructor forgets is garbage, as it is in a recycled slab object or a dirty stack frame, and not conveniently zero.
		memset(m, 0xA5, (sizeof(T) + 15) & ~size_t(15));
		if constexpr(sizeof...(A) == 0) return new (m) T;
		else return new (m) T{std::forward<A>(a)...};
	}
	void *raw(size_t n, size_t align = 16) {
		if(align < 16) align = 16;
		void *m = aligned_alloc(align, (n + align - 1) / align * align + (n == 0 ? align : 0));
		arena.push_back({m, nullptr});
		return m;
	}
	template<typename T> void destroy(T *p) { p->~T(); }
	void drop_arena() { for(auto &b : arena) free(b.first); arena.clear(); }

	// sanitizer flags -> failure of the focused property (or of `prop`)
	void check_san(const char *prop) {
		if(san().asan && !san().expect_asan) { san().asan = 0; fail(prop, "AddressSanitizer report: %s", san().asan_text.c_str()); }
		if(san().ubsan) { san().ubsan = 0; fail(prop, "UndefinedBehaviorSanitizer report (see stderr of the replay)"); }
		if(int n_ = __atomic_exchange_n(&g_tsan_reports, 0, __ATOMIC_RELAXED)) { fail(prop, "%d ThreadSanitizer report(s): data race (see stderr of the replay)", n_); }
	}
};

#define VCHECK(c, prop, cond, ...) do { if(!(cond)) (c).fail(prop, __VA_ARGS__); } while(0)
// A check that belongs to another property than the one in focus and that the model does not depend on: it is evaluated only when its own
// property (or none) is in focus, so that under another focus the case goes on and that property's own consequences can be observed.
#define VCHECK_OWN(c, prop, cond, ...) do { if(((c).focus().empty() || (c).focus() == (prop)) && !(cond)) (c).fail(prop, __VA_ARGS__); } while(0)

struct Enum {
	std::function<bool(const std::vector<uint32_t> &)> run;   // returns false when the run must stop
	std::string tier;
	void scope(const char *name, uint64_t n) { stats().enum_scopes[name] += n; }
};

} // namespace verif

void verif_case(verif::Ctx &c);
void verif_enum(verif::Enum &e) __attribute__((weak));
void verif_case_reset() __attribute__((weak));

extern "C" int verif_rc_search(uint64_t seed, int max_success, int max_size, int len_scale,
		int (*run)(const uint32_t *, size_t, void *), void *ud);

#ifndef VERIF_NO_MAIN
// -------------------------------------------------------------------------------------------
// frigg's assertion hook: throw, so that the engine regains control. (macros.hpp declares the
// hook weak; it has to be seen before the definition.)
#include <frg/macros.hpp>
// Inside verif::guarded() the hook leaves with siglongjmp instead: a library function that is declared noexcept would turn the
// exception into std::terminate, although stopping in the assertion hook is a regular outcome there (parsers on malformed input).
extern "C" void frg_panic(const char *cstring) {
	if(verif::g_panic_jmp) { verif::g_panic_msg = cstring; siglongjmp(*verif::g_panic_jmp, 1); }
	throw verif::Panic{cstring};
}
extern "C" void frg_log(const char *) {}

extern "C" void __asan_set_error_report_callback(void (*)(const char *)) __attribute__((weak));
extern "C" void __ubsan_on_report(void) { verif::san().ubsan++; }
// Called by TSan while it holds its report lock, possibly on several threads: it must not itself
// contain anything TSan could report (a racy increment here re-enters the reporter and deadlocks).
extern "C" __attribute__((no_sanitize("thread"))) void __tsan_on_report(void *) { __atomic_fetch_add(&verif::g_tsan_reports, 1, __ATOMIC_RELAXED); }
// ASan and UBSan de-duplicate reports by program counter / source location when they run in
// recover mode, which would make every later case (and therefore shrinking) blind to a defect
// that was already reported once. They therefore halt: the process dies with the report, the
// journal holds the case, and the driver minimises it by re-running --replay (DESIGN.md 1.2).
extern "C" const char *__asan_default_options() { return "halt_on_error=1:detect_leaks=0:allocator_may_return_null=1:detect_stack_use_after_return=0:exitcode=5:check_printf=0"; }   // check_printf: the reference vsnprintf is handed precision-bounded, unterminated %s arguments (valid ISO C), which the interceptor would flag
extern "C" const char *__ubsan_default_options() { return "print_stacktrace=0:halt_on_error=1:exitcode=5"; }
extern "C" void __sanitizer_set_death_callback(void (*)(void)) __attribute__((weak));
extern "C" const char *__tsan_default_options() { return "suppress_equal_stacks=0:suppress_equal_addresses=0:halt_on_error=0:exitcode=0:report_signal_unsafe=0"; }

namespace verif {

inline void asan_cb(const char *text) {
	san().asan++;
	if(san().asan == 1) {
		// keep the headline only
		const char *e = strstr(text, "ERROR: AddressSanitizer: ");
		std::string s = e ? e + 25 : text;
		size_t nl = s.find('\n');
		if(nl != std::string::npos) {
			size_t nl2 = s.find('\n', nl + 1);
			s = s.substr(0, nl2 == std::string::npos ? nl : nl2);
		}
		for(auto &ch : s) if(ch == '\n') ch = ' ';
		san().asan_text = s;
	}
}

inline void write_tape_file(const std::string &path, const uint32_t *p, size_t n, const std::string &comment) {
	FILE *f = fopen(path.c_str(), "w");
	if(!f) return;
	fprintf(f, "# verif tape harness=%s focus=%s\n", verif_harness, config().focus.c_str());
	for(size_t i = 0; i < n; i++) fprintf(f, "%u\n", p[i]);
	size_t pos = 0;
	while(pos < comment.size()) {
		size_t e = comment.find('\n', pos);
		if(e == std::string::npos) e = comment.size();
		fprintf(f, "# %.*s\n", (int)(e - pos), comment.c_str() + pos);
		pos = e + 1;
	}
	fclose(f);
}

inline bool read_tape_file(const std::string &path, std::vector<uint32_t> &out) {
	FILE *f = fopen(path.c_str(), "r");
	if(!f) return false;
	// lines may be arbitrarily long (comments carry sanitizer summaries)
	char *line = nullptr; size_t cap = 0;
	while(getline(&line, &cap, f) >= 0) {
		if(line[0] == '#' || line[0] == '\n' || line[0] == 0) continue;
		out.push_back((uint32_t)strtoul(line, nullptr, 10));
	}
	free(line);
	fclose(f);
	return true;
}

inline std::string json_escape(const std::string &s) {
	std::string o;
	for(unsigned char ch : s) {
		if(ch == '"') o += "\\\"";
		else if(ch == '\\') o += "\\\\";
		else if(ch == '\n') o += "\\n";
		else if(ch < 0x20 || ch >= 0x7f) { char b[8]; snprintf(b, sizeof b, "\\u%04x", ch); o += b; }
		else o += (char)ch;
	}
	return o;
}

inline uint64_t g_progress = 0;          // bumped atomically per case; read by the watchdog thread
inline bool g_main_finished = false;    // after main() the statistics objects are gone: the sanitizer death callback must not touch them
inline void flush_stats() {
	if(__atomic_load_n(&g_main_finished, __ATOMIC_RELAXED)) return;
	auto &c = config();
	auto &s = stats();
	if(c.out.empty()) return;
	std::string tmp = c.out + ".stats.json.tmp";
	FILE *f = fopen(tmp.c_str(), "w");
	if(!f) return;
	fprintf(f, "{\"harness\":\"%s\",\"focus\":\"%s\",\"cases\":%llu,\"passed\":%llu,\"failed\":%llu,"
			"\"discarded\":%llu,\"foreign\":%llu,\"panics_allowed\":%llu,\"nontrivial_total\":%llu,\"nontrivial_distinct\":%zu,",
			verif_harness, c.focus.c_str(), (unsigned long long)s.cases, (unsigned long long)s.passed,
			(unsigned long long)s.failed, (unsigned long long)s.discarded, (unsigned long long)s.foreign,
			(unsigned long long)s.panics_allowed, (unsigned long long)s.nontrivial_total, s.nontrivial.size());
	auto dump_map = [&](const char *name, const std::map<std::string, uint64_t> &m) {
		fprintf(f, "\"%s\":{", name);
		bool first = true;
		for(auto &kv : m) { fprintf(f, "%s\"%s\":%llu", first ? "" : ",", json_escape(kv.first).c_str(), (unsigned long long)kv.second); first = false; }
		fprintf(f, "},");
	};
	dump_map("tags", s.tags);
	dump_map("known", s.known);
	dump_map("enum_scopes", s.enum_scopes);
	fprintf(f, "\"known_what\":{");
	{ bool first = true; for(auto &kv : s.known_what) { fprintf(f, "%s\"%s\":\"%s\"", first ? "" : ",", json_escape(kv.first).c_str(), json_escape(kv.second).c_str()); first = false; } }
	fprintf(f, "},\"notes\":{");
	{ bool first = true; for(auto &kv : s.notes) { fprintf(f, "%s\"%s\":\"%s\"", first ? "" : ",", json_escape(kv.first).c_str(), json_escape(kv.second).c_str()); first = false; } }
	fprintf(f, "},\"samples\":[");
	for(size_t i = 0; i < s.samples.size(); i++) fprintf(f, "%s\"%s\"", i ? "," : "", json_escape(s.samples[i]).c_str());
	fprintf(f, "]}\n");
	fclose(f);
	rename(tmp.c_str(), (c.out + ".stats.json").c_str());
	// distinct non-trivial hashes, merged across workers by the driver
	std::string hp = c.out + ".hashes";
	FILE *h = fopen(hp.c_str(), "wb");
	if(h) {
		std::vector<uint64_t> v(s.nontrivial.begin(), s.nontrivial.end());
		if(!v.empty()) fwrite(v.data(), 8, v.size(), h);
		fclose(h);
	}
}

struct Outcome { int code; std::string prop, msg, desc; };   // code: 0 pass, 1 fail, 2 discard, 3 foreign

inline Outcome run_one(const uint32_t *p, size_t n) {
	auto &cfg = config();
	if(cfg.journal_fd >= 0) {
		// journal of the case about to run (hard failures bypass everything else)
		uint32_t hdr = (uint32_t)n;
		pwrite(cfg.journal_fd, &hdr, 4, 0);
		if(n) pwrite(cfg.journal_fd, p, n * 4, 4);
	}
	if(verif_case_reset) verif_case_reset();
	san().asan = san().ubsan = san().tsan = 0; san().asan_text.clear(); san().expect_asan = false;
	__atomic_store_n(&g_tsan_reports, 0, __ATOMIC_RELAXED);
	Ctx c;
	c.t.p = p; c.t.n = n;
	Outcome o{0, "", "", ""};
	try {
		verif_case(c);
		c.check_san(cfg.focus.c_str());
	} catch(Fail &f) {
		o.code = 1; o.prop = f.prop; o.msg = f.msg;
	} catch(Panic &pn) {
		o.code = 1; o.prop = cfg.focus; o.msg = "frg_panic on a valid history: " + pn.msg;
	} catch(Discard &d) {
		o.code = 2; o.msg = d.why;
	} catch(std::exception &e) {
		o.code = 1; o.prop = cfg.focus; o.msg = std::string("unexpected exception: ") + e.what();
	}
	// (also for a discarded case: a sanitizer report that was printed before the case gave up - e.g. before a sink had seen enough output -
	// is a failure of the case all the same)
	if((o.code == 0 || o.code == 2) && (san().asan || san().ubsan || __atomic_load_n(&g_tsan_reports, __ATOMIC_RELAXED))) {
		try { c.check_san(cfg.focus.c_str()); } catch(Fail &f) { o.code = 1; o.prop = f.prop; o.msg = f.msg; }
	}
	c.drop_arena();
	if(verif_case_reset) verif_case_reset();
	if(o.code == 1 && !cfg.focus.empty() && !o.prop.empty() && o.prop != cfg.focus && o.prop != "*") o.code = 3;
	o.desc = c.desc;
	auto &s = stats();
	s.cases++;
	__atomic_fetch_add(&g_progress, 1, __ATOMIC_RELAXED);
	switch(o.code) {
	case 0: s.passed++; break;
	case 1: s.failed++; break;
	case 2: s.discarded++; s.tags["discard:" + o.msg]++; break;
	case 3: s.foreign++; s.tags["foreign:" + o.prop]++; break;
	}
	if(o.code == 0) {
		for(auto &t : c.tags) s.tags[t]++;
		if(c.nontrivial) {
			s.nontrivial_total++;
			if(s.nontrivial.size() < 4000000) s.nontrivial.insert(fnv1a(c.desc));
			if(s.samples.size() < 5) s.samples.push_back(c.desc.substr(0, 700));
		}
	}
	return o;
}

inline void record_failure(const uint32_t *p, size_t n, const Outcome &o) {
	auto &cfg = config();
	if(cfg.out.empty()) return;
	write_tape_file(cfg.out + ".fail.tape", p, n,
			"property=" + o.prop + "\nfailure: " + o.msg + "\ncase: " + o.desc);
}

// Shrinking is bounded: after the first failure at most 40000 further executions / 40 s of CPU
// time are spent; beyond that every candidate is reported as passing, which ends rapidcheck's
// shrink search at the smallest failing tape found so far (that tape is already on disk).
inline int rc_cb(const uint32_t *p, size_t n, void *) {
	static uint64_t shrink_runs = 0; static clock_t first_fail = 0; static bool failed = false;
	if(failed) {
		if(++shrink_runs > 40000 || (clock() - first_fail) / CLOCKS_PER_SEC > 40) return 0;
	}
	Outcome o = run_one(p, n);
	if(o.code == 1 && !failed) { failed = true; first_fail = clock(); }
	if(o.code == 1) { record_failure(p, n, o); return 1; }
	return 0;
}

// A single case takes micro- to milliseconds. A case during which the process burns 20 s of CPU
// time (not wall time: load does not matter) does not terminate: exit 4, the journal holds it.
// A watchdog thread is used rather than a timer signal: TSan delivers asynchronous signals only at
// interceptor boundaries, i.e. never inside a tight loop.
__attribute__((no_sanitize("thread"))) inline void *hang_watchdog(void *) {
	uint64_t last_cases = ~0ull; double cpu_at_last_progress = 0;
	while(true) {
		struct timespec nap = {1, 0}; nanosleep(&nap, nullptr);
		if(__atomic_load_n(&g_main_finished, __ATOMIC_RELAXED)) return nullptr;
		struct timespec ts; clock_gettime(CLOCK_PROCESS_CPUTIME_ID, &ts);
		double cpu = ts.tv_sec + ts.tv_nsec * 1e-9;
		uint64_t now = __atomic_load_n(&g_progress, __ATOMIC_RELAXED);
		if(now != last_cases) { last_cases = now; cpu_at_last_progress = cpu; continue; }
		if(cpu - cpu_at_last_progress > 20.0) { const char m[] = "VERIF-HANG: one case used more than 20 s of CPU time\n"; (void)!write(2, m, sizeof m - 1); _exit(4); }
	}
}
inline void arm_hang_watchdog() {
	pthread_t th; pthread_attr_t at; pthread_attr_init(&at); pthread_attr_setdetachstate(&at, PTHREAD_CREATE_DETACHED);
	pthread_create(&th, &at, hang_watchdog, nullptr);
}

inline int engine_main(int argc, char **argv) {
	auto &cfg = config();
	arm_hang_watchdog();
	std::string mode, replay;
	uint64_t seed = 1; int cases = 1000, size = 100, scale = 4;
	for(int i = 1; i < argc; i++) {
		std::string a = argv[i];
		auto val = [&]() -> std::string { return i + 1 < argc ? argv[++i] : ""; };
		if(a == "--rc") mode = "rc";
		else if(a == "--enum") mode = "enum";
		else if(a == "--replay") { mode = "replay"; replay = val(); }
		else if(a == "--seed") seed = strtoull(val().c_str(), nullptr, 10);
		else if(a == "--cases") cases = atoi(val().c_str());
		else if(a == "--size") size = atoi(val().c_str());
		else if(a == "--scale") scale = atoi(val().c_str());
		else if(a == "--focus") cfg.focus = val();
		else if(a == "--out") cfg.out = val();
		else if(a == "--tier") cfg.tier = val();
		else if(a == "--verbose") cfg.verbose = true;
		else if(a == "--known") {
			std::string k = val(); size_t pos = 0;
			while(pos <= k.size()) { size_t e = k.find(',', pos); if(e == std::string::npos) e = k.size(); if(e > pos) cfg.known.push_back(k.substr(pos, e - pos)); pos = e + 1; }
		} else { fprintf(stderr, "unknown argument %s\n", a.c_str()); return 64; }
	}
	if(__asan_set_error_report_callback) __asan_set_error_report_callback(asan_cb);
	if(__sanitizer_set_death_callback) __sanitizer_set_death_callback(flush_stats);
	if(!cfg.out.empty() && mode != "replay") {
		cfg.journal_fd = open((cfg.out + ".current.bin").c_str(), O_CREAT | O_TRUNC | O_WRONLY, 0644);
	}
	int rc = 0;
	if(mode == "replay") {
		std::vector<uint32_t> tape;
		if(!read_tape_file(replay, tape)) { fprintf(stderr, "cannot read %s\n", replay.c_str()); return 65; }
		Outcome o = run_one(tape.data(), tape.size());
		printf("case: %s\n", o.desc.c_str());
		if(o.code == 1) { printf("FAIL property=%s %s\n", o.prop.c_str(), o.msg.c_str()); record_failure(tape.data(), tape.size(), o); rc = 3; }
		else if(o.code == 2) printf("DISCARD %s\n", o.msg.c_str());
		else if(o.code == 3) printf("FOREIGN property=%s %s\n", o.prop.c_str(), o.msg.c_str());
		else printf("PASS\n");
		for(auto &kv : stats().known) printf("KNOWN %s x%llu %s\n", kv.first.c_str(), (unsigned long long)kv.second, stats().known_what[kv.first].c_str());
	} else if(mode == "enum") {
		if(!verif_enum) { fprintf(stderr, "harness has no enumerator\n"); return 66; }
		Enum e;
		e.tier = cfg.tier;
		bool stop = false;
		e.run = [&](const std::vector<uint32_t> &tape) -> bool {
			if(stop) return false;
			Outcome o = run_one(tape.data(), tape.size());
			if(o.code == 1) { record_failure(tape.data(), tape.size(), o); stop = true; rc = 3; return false; }
			return true;
		};
		verif_enum(e);
	} else if(mode == "rc") {
		int r = verif_rc_search(seed, cases, size, scale, rc_cb, nullptr);
		if(r) rc = 3;
	} else {
		fprintf(stderr, "usage: %s --rc|--enum|--replay F [--seed N --cases N --size N --scale N --focus Cxx --out PREFIX --known a,b]\n", argv[0]);
		return 64;
	}
	flush_stats();
	__atomic_store_n(&g_main_finished, true, __ATOMIC_RELAXED);
	return rc;
}

} // namespace verif

#ifdef VERIF_LIBFUZZER
extern "C" int LLVMFuzzerInitialize(int *, char ***) {
	auto &cfg = verif::config();
	if(const char *f = getenv("VERIF_FOCUS")) cfg.focus = f;
	if(const char *o = getenv("VERIF_OUT")) cfg.out = o;
	if(const char *k = getenv("VERIF_KNOWN")) {
		std::string ks = k; size_t pos = 0;
		while(pos <= ks.size()) { size_t e = ks.find(',', pos); if(e == std::string::npos) e = ks.size(); if(e > pos) cfg.known.push_back(ks.substr(pos, e - pos)); pos = e + 1; }
	}
	if(__asan_set_error_report_callback) __asan_set_error_report_callback(verif::asan_cb);
	atexit(verif::flush_stats);
	return 0;
}
#ifndef VERIF_FUZZ_RAW
extern "C" int LLVMFuzzerTestOneInput(const uint8_t *data, size_t size) {
	std::vector<uint32_t> tape(size / 4);
	if(!tape.empty()) memcpy(tape.data(), data, tape.size() * 4);
	verif::Outcome o = verif::run_one(tape.data(), tape.size());
	if(o.code == 1) {
		verif::record_failure(tape.data(), tape.size(), o);
		verif::flush_stats();
		fprintf(stderr, "VERIF-FAIL property=%s %s\n", o.prop.c_str(), o.msg.c_str());
		__builtin_trap();
	}
	if((verif::stats().cases & 0xffff) == 0) verif::flush_stats();
	return 0;
}
#endif
#else
// _exit: the verdict is the exit status; sanitizer at-exit hooks (TSan's "reported N warnings" status) must not replace it
#ifdef VERIF_COVERAGE
extern "C" int __llvm_profile_write_file(void);      // tools/coverage.sh: the profile is normally written by an atexit handler, which _exit skips
#endif
int main(int argc, char **argv) {
	int rc = verif::engine_main(argc, argv); fflush(stdout); fflush(stderr);
#ifdef VERIF_COVERAGE
	__llvm_profile_write_file();
#endif
	_exit(rc);
}
#endif
#endif // VERIF_NO_MAIN
