// Instrumented mutex for the sequential harnesses (DESIGN.md 1.4): a correct, non-recursive
// mutex as seen by a single thread. Re-locking a held mutex ("would block forever"), unlocking a
// free one or releasing through the wrong call is recorded as a pending error.
#pragma once
#include <cstdint>
#include <cstdio>
#include <string>

namespace verif {

struct MutexLog {
	std::string error;
	int held = 0;                 // mutexes currently held (exclusive + shared holds)
	uint64_t ops = 0;
	void err(const char *what, const void *m) { if(error.empty()) { char b[160]; snprintf(b, sizeof b, "%s (mutex %p)", what, m); error = b; } }
	void reset() { error.clear(); held = 0; ops = 0; }
};
inline MutexLog &mutex_log() { static MutexLog l; return l; }

struct inst_mutex {
	int excl = 0, shared = 0;
	uint64_t n_lock = 0, n_unlock = 0, n_lock_shared = 0, n_unlock_shared = 0;
	inst_mutex() = default;
	inst_mutex(const inst_mutex &) = delete;
	void lock() {
		auto &l = mutex_log(); l.ops++;
		if(excl || shared) { l.err("lock() of a mutex that is already held: a correct non-recursive mutex blocks forever", this); return; }
		excl = 1; n_lock++; l.held++;
	}
	void unlock() {
		auto &l = mutex_log(); l.ops++;
		if(!excl) { l.err(shared ? "unlock() of a mutex that is held shared (mismatched release)" : "unlock() of a mutex that is not held", this); return; }
		excl = 0; n_unlock++; l.held--;
	}
	void lock_shared() {
		auto &l = mutex_log(); l.ops++;
		if(excl) { l.err("lock_shared() of a mutex that is held exclusively: blocks forever", this); return; }
		shared++; n_lock_shared++; l.held++;
	}
	void unlock_shared() {
		auto &l = mutex_log(); l.ops++;
		if(!shared) { l.err(excl ? "unlock_shared() of a mutex that is held exclusively (mismatched release)" : "unlock_shared() of a mutex that is not held shared", this); return; }
		shared--; n_unlock_shared++; l.held--;
	}
};

#define VMUTEX_POLL(c, prop) do { if(!verif::mutex_log().error.empty()) { std::string e_ = verif::mutex_log().error; verif::mutex_log().error.clear(); (c).fail(prop, "%s", e_.c_str()); } } while(0)

} // namespace verif
