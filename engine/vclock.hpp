// Vector-clock happens-before tracking for the harness-owned scheduler (dsched).
//
// ThreadSanitizer judges data races with its own model of the C++ memory orders. Two things it does
// not do are added here, for the threads that run under dsched (one at a time, so no locking):
//  * release sequences as C++20 defines them ([intro.races]/5 after P0982R1): a release store heads
//    a sequence that is continued by read-modify-write operations only. A later *plain* store to
//    the same atomic - also one by the same thread, which C++11 still counted - ends it, so an
//    acquire load that reads such a value synchronises with nothing;
//  * an explicit oracle the harness can ask: "does the construction of this object happen before
//    the read I am about to do?" (Stamp / hb()), evaluated at the moment of the read.
// std::verif_atomic (verif_atomic.hpp) updates the clocks with the memory orders the code under
// test actually passes. Nothing here synchronises: the functions are not instrumented by TSan.
#pragma once
#include <cstdint>
#include <cstring>
#include <atomic>

#define VCLOCK_NOTSAN __attribute__((no_sanitize("thread")))

// included from dsched.hpp after dsched::tid is defined

namespace vclock {
constexpr int MAXT = 10;            // slot 0: the thread that drives the case, 1..: dsched threads
struct VC {
	uint32_t c[MAXT] = {};
	VCLOCK_NOTSAN void clear() { for(int i = 0; i < MAXT; i++) c[i] = 0; }
	VCLOCK_NOTSAN void join(const VC &o) { for(int i = 0; i < MAXT; i++) if(o.c[i] > c[i]) c[i] = o.c[i]; }
};
struct State {
	VC thread[MAXT];
	bool cxx11_release_sequences = false;      // true: same-thread plain stores continue a release sequence (the pre-C++20 rule)
	uint64_t acquire_without_release = 0;
	// fences ([atomics.fences]): what a thread has read without acquiring it (an acquire fence acquires it), and the clock of its
	// last release fence (later relaxed stores publish that clock as if they were release operations)
	VC acq_pending[MAXT]; VC rel_fence[MAXT]; bool has_rel_fence[MAXT] = {};
};
VCLOCK_NOTSAN inline State &st() { static State s; return s; }
VCLOCK_NOTSAN inline void reset_tables();
VCLOCK_NOTSAN inline int me() { int t = dsched::tid + 1; return t < 0 || t >= MAXT ? 0 : t; }
VCLOCK_NOTSAN inline void reset() { auto &s = st(); for(int i = 0; i < MAXT; i++) { s.thread[i].clear(); s.thread[i].c[i] = 1; s.acq_pending[i].clear(); s.rel_fence[i].clear(); s.has_rel_fence[i] = false; } s.acquire_without_release = 0; reset_tables(); }
// thread creation / join edges of one dsched::run
VCLOCK_NOTSAN inline void fork_all(int n) { auto &s = st(); for(int k = 1; k <= n && k < MAXT; k++) s.thread[k].join(s.thread[0]); s.thread[0].c[0]++; }
VCLOCK_NOTSAN inline void join_all(int n) { auto &s = st(); for(int k = 1; k <= n && k < MAXT; k++) { s.thread[0].join(s.thread[k]); s.thread[k].c[k]++; } }

// the moment "now" of the calling thread, to be stored in an object when it is constructed/written
struct Stamp { uint32_t tid = 0, epoch = 0; };
VCLOCK_NOTSAN inline Stamp now() { int m = me(); return Stamp{(uint32_t)m, st().thread[m].c[m]}; }
// does the stamped event happen before the calling thread's current position?
VCLOCK_NOTSAN inline bool hb(const Stamp &s) { if(s.epoch == 0) return true; return st().thread[me()].c[s.tid] >= s.epoch; }

// state attached to one atomic object
struct Rel {
	VC vc; bool has = false; int head = -1;
	VCLOCK_NOTSAN static bool acq(std::memory_order mo) { return mo == std::memory_order_acquire || mo == std::memory_order_consume || mo == std::memory_order_acq_rel || mo == std::memory_order_seq_cst; }
	VCLOCK_NOTSAN static bool rel(std::memory_order mo) { return mo == std::memory_order_release || mo == std::memory_order_acq_rel || mo == std::memory_order_seq_cst; }
	VCLOCK_NOTSAN void on_load(std::memory_order mo) {
		auto &s = st(); int m = me();
		if(has) { if(acq(mo)) s.thread[m].join(vc); else s.acq_pending[m].join(vc); }
		else if(acq(mo)) s.acquire_without_release++;
	}
	VCLOCK_NOTSAN void on_store(std::memory_order mo) {
		auto &s = st(); int m = me();
		if(rel(mo)) { vc = s.thread[m]; has = true; head = m; s.thread[m].c[m]++; }
		else if(s.has_rel_fence[m]) { vc = s.rel_fence[m]; has = true; head = m; }      // release fence + relaxed store
		else if(!(s.cxx11_release_sequences && has && head == m)) { has = false; head = -1; }
	}
	VCLOCK_NOTSAN void on_rmw(std::memory_order mo) {
		auto &s = st(); int m = me();
		if(has) { if(acq(mo)) s.thread[m].join(vc); else s.acq_pending[m].join(vc); }
		if(rel(mo)) { if(!has) { vc.clear(); has = true; head = m; } vc.join(s.thread[m]); s.thread[m].c[m]++; }
		else if(s.has_rel_fence[m]) { if(!has) { vc.clear(); has = true; head = m; } vc.join(s.rel_fence[m]); }
		// a relaxed/acquire-only RMW continues the sequence it read from: vc stays
	}
};
// std::atomic_thread_fence / __atomic_thread_fence
VCLOCK_NOTSAN inline void on_fence(std::memory_order mo) {
	auto &s = st(); int m = me();
	if(Rel::acq(mo)) s.thread[m].join(s.acq_pending[m]);
	if(Rel::rel(mo)) { s.rel_fence[m] = s.thread[m]; s.has_rel_fence[m] = true; s.thread[m].c[m]++; }
}
} // namespace vclock

// ThreadSanitizer does not model stand-alone fences (its fence entry point is a no-op), so code that orders plain accesses with
// "relaxed load ... acquire fence" or "release fence ... relaxed store" gets false race reports. The interposed operations mirror the
// fence rules with TSan's annotation interface: an acquire fence acquires the sync objects of the atomics the thread has read
// without acquiring; after a release fence, a relaxed store or read-modify-write releases on its atomic first. (Under the
// harness-owned scheduler a load reads the latest value, so "the sync object as it is now" is what the load read from.)
extern "C" { void __tsan_acquire(void *) __attribute__((weak)); void __tsan_release(void *) __attribute__((weak)); }
namespace vclock {
struct FenceMirror { const void *pend[24]; int n = 0; bool rel_fence = false; };
inline thread_local FenceMirror g_fm;
inline void mirror_read(const volatile void *p, std::memory_order mo) {
	if(Rel::acq(mo)) return;
	auto &f = g_fm; for(int i = 0; i < f.n; i++) if(f.pend[i] == (const void *)p) return;
	if(f.n < 24) f.pend[f.n++] = (const void *)p; else f.pend[23] = (const void *)p;
}
inline void mirror_write(const volatile void *p, std::memory_order mo) { if(!Rel::rel(mo) && g_fm.rel_fence && __tsan_release) __tsan_release((void *)p); }
inline void mirror_fence(std::memory_order mo) {
	auto &f = g_fm;
	if(Rel::acq(mo) && __tsan_acquire) for(int i = 0; i < f.n; i++) __tsan_acquire((void *)f.pend[i]);
	if(Rel::rel(mo)) f.rel_fence = true;
}

// Clocks for atomics that are plain objects accessed through the __atomic_* builtins (no wrapper object to carry a Rel): a table keyed
// by address. Slots are claimed per case (generation counter instead of clearing 8192 slots for every case).
struct RelSlot { const void *key; uint64_t gen; Rel rel; };
constexpr size_t NSLOT = 8192;
inline RelSlot g_rels[NSLOT];
inline uint64_t g_rel_gen = 1;
VCLOCK_NOTSAN inline Rel &rel_of(const volatile void *p) {
	size_t h = (size_t)((((uintptr_t)p >> 2) * 0x9E3779B97F4A7C15ull) >> 51);     // 13 bits
	for(size_t d = 0; d < NSLOT; d++) {
		RelSlot &r = g_rels[(h + d) & (NSLOT - 1)];
		if(r.gen != g_rel_gen) { r.key = (const void *)p; r.gen = g_rel_gen; r.rel = Rel(); return r.rel; }
		if(r.key == (const void *)p) return r.rel;
	}
	return g_rels[h].rel;
}
// The order in which the threads performed their successful read-modify-write operations (spin_conc: the ticket of a lock() call is
// drawn by its first successful read-modify-write on the lock, whatever operation the implementation uses for it).
inline uint64_t g_rmw_seq = 0;
inline thread_local uint64_t draw_seq = 0;
VCLOCK_NOTSAN inline void note_rmw() { uint64_t n = ++g_rmw_seq; if(!draw_seq) draw_seq = n; }
VCLOCK_NOTSAN inline void reset_tables() { g_rel_gen++; g_rmw_seq = 0; }
} // namespace vclock

