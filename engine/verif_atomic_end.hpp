#undef atomic
#undef atomic_thread_fence
#undef atomic_signal_fence
