// Put around the #include of the frigg header under test:
//   #include "../engine/verif_atomic_begin.hpp" / #include <frg/...> / #include "../engine/verif_atomic_end.hpp"
// Inside, std::atomic<T>, std::atomic_thread_fence, the __atomic_* builtins and the x86 pause builtin are interposed: every access is a
// schedule point of dsched, feeds the happens-before clocks (vclock.hpp) with the memory order the code passes, and is then performed
// for real with that same order (so ThreadSanitizer judges it too). No frigg source is modified.
// No #pragma once: the pair may be used several times in one translation unit. Standard headers must not be compiled under the macros:
// the usual ones are included here first, so that a later #include of them inside the region is a no-op.
#include <atomic>
#include <memory>
#include <new>
#include <type_traits>
#include <utility>
#include <tuple>
#include <functional>
#include <algorithm>
#include <limits>
#include <bit>
#include <concepts>
#include <initializer_list>
#include <optional>
#include <string>
#include <vector>
#include <mutex>
#include <cstdint>
#include <cstddef>
#include <cstring>
#include <stdint.h>
#include <stddef.h>
#include <string.h>
#include "verif_atomic.hpp"
#include "verif_builtins.hpp"
#define atomic verif_atomic
#define atomic_flag verif_atomic_flag
#define atomic_ref verif_atomic_ref
#define atomic_thread_fence verif_atomic_thread_fence
#define atomic_signal_fence verif_atomic_signal_fence
#define __atomic_fetch_add(p, v, mo) vhooks::fetch_add(p, v, mo)
#define __atomic_fetch_sub(p, v, mo) vhooks::fetch_sub(p, v, mo)
#define __atomic_fetch_or(p, v, mo) vhooks::fetch_or(p, v, mo)
#define __atomic_fetch_and(p, v, mo) vhooks::fetch_and(p, v, mo)
#define __atomic_fetch_xor(p, v, mo) vhooks::fetch_xor(p, v, mo)
#define __atomic_fetch_nand(p, v, mo) vhooks::fetch_nand(p, v, mo)
#define __atomic_add_fetch(p, v, mo) vhooks::add_fetch(p, v, mo)
#define __atomic_sub_fetch(p, v, mo) vhooks::sub_fetch(p, v, mo)
#define __atomic_or_fetch(p, v, mo) vhooks::or_fetch(p, v, mo)
#define __atomic_and_fetch(p, v, mo) vhooks::and_fetch(p, v, mo)
#define __atomic_xor_fetch(p, v, mo) vhooks::xor_fetch(p, v, mo)
#define __atomic_nand_fetch(p, v, mo) vhooks::nand_fetch(p, v, mo)
#define __atomic_load_n(p, mo) vhooks::load_n(p, mo)
#define __atomic_load(p, r, mo) vhooks::load(p, r, mo)
#define __atomic_store_n(p, v, mo) vhooks::store_n(p, v, mo)
#define __atomic_store(p, v, mo) vhooks::store(p, v, mo)
#define __atomic_exchange_n(p, v, mo) vhooks::exchange_n(p, v, mo)
#define __atomic_exchange(p, v, r, mo) vhooks::exchange(p, v, r, mo)
#define __atomic_compare_exchange_n(p, e, v, w, smo, fmo) vhooks::compare_exchange_n(p, e, v, w, smo, fmo)
#define __atomic_test_and_set(p, mo) vhooks::test_and_set(p, mo)
#define __atomic_clear(p, mo) vhooks::clear(p, mo)
#define __atomic_thread_fence(mo) vhooks::thread_fence(mo)
#define __builtin_ia32_pause() dsched::spin_yield()
