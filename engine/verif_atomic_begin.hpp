// Put around the #include of the frigg header under test (after every std header it needs has been included):
//   #include "../engine/verif_atomic_begin.hpp" / #include <frg/...> / #include "../engine/verif_atomic_end.hpp"
// No #pragma once: the pair may be used several times in one translation unit.
#define atomic verif_atomic
#define atomic_thread_fence verif_atomic_thread_fence
#define atomic_signal_fence verif_atomic_signal_fence
