// Harness-owned scheduler for the concurrency properties (DESIGN.md 1.3).
// Test threads are real OS threads, but only the thread holding the baton runs. The baton is
// handed over at schedule points; the decisions come from a choice source (the tape, or an
// explicit vector in exhaustive mode), so an execution is deterministic and replayable.
//   choice index 0 always means "the current thread continues" (when it is enabled), so an
//   exhausted tape means no further pre-emption and smaller tapes mean fewer context switches.
// TSan must not derive happens-before from the hand-over: the baton (mutex + condvar) is used
// inside AnnotateIgnoreSync / IgnoreReads / IgnoreWrites regions.
#pragma once
#include <mutex>
#include <condition_variable>
#include <thread>
#include <vector>
#include <functional>
#include <string>
#include <cstdint>
#include <cstdio>
#include <cstdlib>

extern "C" {
void AnnotateIgnoreSyncBegin(const char *, int) __attribute__((weak));
void AnnotateIgnoreSyncEnd(const char *, int) __attribute__((weak));
void AnnotateIgnoreReadsBegin(const char *, int) __attribute__((weak));
void AnnotateIgnoreReadsEnd(const char *, int) __attribute__((weak));
void AnnotateIgnoreWritesBegin(const char *, int) __attribute__((weak));
void AnnotateIgnoreWritesEnd(const char *, int) __attribute__((weak));
}

namespace dsched {

struct Abort {};          // thrown into test threads when the run is torn down (deadlock, step limit)

// Everything the harness itself shares between threads is touched inside an ignore region, so that
// the harness neither hides a race (by adding synchronisation) nor reports one of its own.
struct Ignore {
	Ignore() { if(AnnotateIgnoreSyncBegin) { AnnotateIgnoreSyncBegin(__FILE__, __LINE__); AnnotateIgnoreReadsBegin(__FILE__, __LINE__); AnnotateIgnoreWritesBegin(__FILE__, __LINE__); } }
	~Ignore() { if(AnnotateIgnoreSyncBegin) { AnnotateIgnoreWritesEnd(__FILE__, __LINE__); AnnotateIgnoreReadsEnd(__FILE__, __LINE__); AnnotateIgnoreSyncEnd(__FILE__, __LINE__); } }
};

enum class St { runnable, blocked, spinning, done };

struct Sched {
	std::mutex bm; std::condition_variable cv;
	int current = -1;                 // tid holding the baton
	int nthreads = 0;
	std::vector<St> st;
	std::vector<const void *> blocked_on;
	std::vector<uint64_t> spin_epoch;
	std::vector<bool> after_spin;     // the next point() of this thread is the re-check of a spin loop
	std::vector<bool> op_pending;     // the thread passed a point and its operation has not been counted as progress yet
	uint64_t progress = 0, steps = 0, switches = 0, max_steps = 200000;
	bool abort = false, active = false;
	std::string verdict;              // "", "deadlock", "step-limit"
	// choice source
	std::function<uint32_t(size_t)> choose;        // given the number of alternatives (>= 2), returns an index
	std::vector<uint32_t> trace_sizes;             // number of alternatives at every choice point (for DFS)
	bool fair_tail = false;                        // round robin instead of choices
	int rr = 0;
	unsigned run_length = 0;
	bool at_rmw = false;              // while the chooser runs: the yielding thread stands right before a read-modify-write
	uint64_t grace_progress = ~0ull; unsigned grace_rounds = 0; int grace_rr = 0;    // see pick_next_locked
};
inline Sched &S() { static Sched s; return s; }
inline thread_local int tid = -1;
inline thread_local bool tl_rmw_next = false;     // the calling thread's next operation is a read-modify-write (point_rmw)
} // namespace dsched
#include "vclock.hpp"
namespace dsched {

// must be called with bm held, inside an Ignore region
inline void pick_next_locked(int me) {
	auto &s = S();
	std::vector<int> en;
	auto enabled = [&](int k) { return s.st[k] == St::runnable || (s.st[k] == St::spinning && s.progress > s.spin_epoch[k]); };
	if(me >= 0 && enabled(me)) en.push_back(me);
	for(int k = 0; k < s.nthreads; k++) if(k != me && enabled(k)) en.push_back(k);
	if(en.empty()) {
		// Nobody is enabled: every live thread is blocked on a mutex or sits in a spin loop that saw no step of another thread since
		// it last paused. A spin loop need not be "check, pause, check, pause": it may pause several times in a row (back-off) or
		// pause before its first check. Before the verdict, the spinners are therefore let run again, round after round; only when
		// that many rounds pass without a single operation taking effect is the state final.
		bool any_spinner = false; for(int k = 0; k < s.nthreads; k++) if(s.st[k] == St::spinning) any_spinner = true;
		if(any_spinner) {
			if(s.grace_progress != s.progress) { s.grace_progress = s.progress; s.grace_rounds = 0; }
			if(++s.grace_rounds <= 4000) {
				// one spinner per round, round robin (no choice point: the tape does not steer this, and a thread whose turn has not
				// come cannot starve the one that would get out of its loop)
				for(int d = 1; d <= s.nthreads; d++) { int k = (s.grace_rr + d) % s.nthreads; if(s.st[k] == St::spinning) { en.push_back(k); s.grace_rr = k; break; } }
			}
		}
	}
	if(en.empty()) {
		bool all_done = true; for(auto x : s.st) if(x != St::done) all_done = false;
		if(!all_done) { s.verdict = "deadlock"; s.abort = true;
			if(getenv("VERIF_SCHED_DEBUG")) { fprintf(stderr, "dsched: deadlock at step %llu progress %llu:", (unsigned long long)s.steps, (unsigned long long)s.progress);
				for(int k = 0; k < s.nthreads; k++) fprintf(stderr, " t%d=%s(epoch %llu)", k, s.st[k] == St::runnable ? "runnable" : s.st[k] == St::blocked ? "blocked" : s.st[k] == St::spinning ? "spinning" : "done", (unsigned long long)s.spin_epoch[k]);
				fprintf(stderr, "\n"); } }
		s.current = -2;                // nobody: wakes the controller (and, on abort, everybody)
		return;
	}
	int next;
	// Fairness: a thread that has run 300 consecutive points while others are enabled (a wait loop
	// that polls with real operations, e.g. quiescent_barrier()) is pre-empted round robin. The
	// rule is deterministic, so replays are unaffected.
	if(me >= 0 && en.size() > 1 && en[0] == me && ++s.run_length > 300) {
		s.run_length = 0;
		next = en[1 + (s.rr++ % (en.size() - 1))];
		s.switches++;
		if(s.st[next] == St::spinning) { s.st[next] = St::runnable; s.after_spin[next] = true; }
		s.current = next;
		return;
	}
	if(s.fair_tail) {
		// round robin over the enabled threads, starting after the last one chosen
		next = en[0];
		for(int d = 1; d <= s.nthreads; d++) { int k = (s.rr + d) % s.nthreads; bool ok = false; for(int e : en) if(e == k) ok = true; if(ok) { next = k; break; } }
		s.rr = next;
	} else if(en.size() == 1) next = en[0];
	else { s.trace_sizes.push_back((uint32_t)en.size()); s.at_rmw = me >= 0 && en[0] == me && tl_rmw_next; next = en[s.choose(en.size()) % en.size()]; s.at_rmw = false; }
	if(next != me) { s.switches++; s.run_length = 0; }
	if(s.st[next] == St::spinning) { s.st[next] = St::runnable; s.after_spin[next] = true; }
	s.current = next;
}

// hand the baton on and wait until it comes back (or the run is aborted)
inline void yield_locked(std::unique_lock<std::mutex> &lk, int me) {
	auto &s = S();
	pick_next_locked(me);
	if(s.current != me) { s.cv.notify_all(); s.cv.wait(lk, [&] { return s.current == me || s.abort; }); }
	if(s.abort) { lk.unlock(); throw Abort{}; }
}

inline void point() {
	if(tid < 0) return;
	auto &s = S();
	if(!s.active) return;
	Ignore ig;
	std::unique_lock<std::mutex> lk(s.bm);
	if(s.abort) { lk.unlock(); throw Abort{}; }
	if(++s.steps > s.max_steps) { s.verdict = "step-limit"; s.abort = true; s.current = -2; s.cv.notify_all(); lk.unlock(); throw Abort{}; }
	// A point precedes its operation. The operation counts as progress (which re-enables spinners)
	// only once it has taken effect, i.e. when its thread reaches the next point or finishes.
	if(s.op_pending[tid]) { s.progress++; s.op_pending[tid] = false; }
	bool recheck = s.after_spin[tid]; s.after_spin[tid] = false;
	yield_locked(lk, tid);
	if(!recheck) s.op_pending[tid] = true;
}

// a point that precedes a read-modify-write or compare-exchange: schedule modes that hunt for check-then-act windows (a value loaded
// earlier and about to be written back) prefer to run the other threads here
inline void point_rmw() { tl_rmw_next = true; try { point(); } catch(...) { tl_rmw_next = false; throw; } tl_rmw_next = false; }

// voluntary yield: another enabled thread runs if there is one (round robin), otherwise the caller continues
inline void yield_now() {
	if(tid < 0) return;
	auto &s = S();
	if(!s.active) return;
	Ignore ig;
	std::unique_lock<std::mutex> lk(s.bm);
	if(s.abort) { lk.unlock(); throw Abort{}; }
	if(++s.steps > s.max_steps) { s.verdict = "step-limit"; s.abort = true; s.current = -2; s.cv.notify_all(); lk.unlock(); throw Abort{}; }
	if(s.op_pending[tid]) { s.progress++; s.op_pending[tid] = false; }
	int next = -1;
	for(int d = 1; d < s.nthreads; d++) { int k = (tid + d) % s.nthreads; if(s.st[k] == St::runnable || (s.st[k] == St::spinning && s.progress > s.spin_epoch[k])) { next = k; break; } }
	if(next < 0) return;
	if(s.st[next] == St::spinning) { s.st[next] = St::runnable; s.after_spin[next] = true; }
	s.switches++;
	s.current = next;
	s.cv.notify_all();
	int me = tid;
	s.cv.wait(lk, [&] { return s.current == me || s.abort; });
	if(s.abort) { lk.unlock(); throw Abort{}; }
}

// called from spin loops: the spinner is de-scheduled until another thread has made a step
inline void spin_yield() {
	if(tid < 0) return;
	auto &s = S();
	if(!s.active) return;
	Ignore ig;
	std::unique_lock<std::mutex> lk(s.bm);
	if(s.abort) { lk.unlock(); throw Abort{}; }
	if(++s.steps > s.max_steps) { s.verdict = "step-limit"; s.abort = true; s.current = -2; s.cv.notify_all(); lk.unlock(); throw Abort{}; }
	if(s.op_pending[tid]) { s.progress++; s.op_pending[tid] = false; }
	s.st[tid] = St::spinning; s.spin_epoch[tid] = s.progress;
	yield_locked(lk, tid);
}

// A mutex whose lock/unlock are schedule points. It also locks a real std::mutex that is never
// contended, so that TSan sees the happens-before edges of a real lock.
struct sched_mutex {
	std::mutex real;
	int owner = -1;
	vclock::Rel hb;        // unlock releases, lock acquires (vclock.hpp)
	sched_mutex() = default;
	sched_mutex(const sched_mutex &) = delete;
	void lock() {
		if(tid < 0 || !S().active) { real.lock(); owner = -3; hb.on_load(std::memory_order_acquire); return; }
		point();
		{
			auto &s = S();
			Ignore ig;
			std::unique_lock<std::mutex> lk(s.bm);
			while(owner != -1) {
				if(owner == tid) { s.verdict = "deadlock"; s.abort = true; s.current = -2; s.cv.notify_all(); lk.unlock(); throw Abort{}; }   // self-deadlock
				s.st[tid] = St::blocked; s.blocked_on[tid] = this;
				yield_locked(lk, tid);
			}
			owner = tid;
		}
		real.lock();
		hb.on_load(std::memory_order_acquire);
		held_count()++;
	}
	void unlock() {
		if(tid < 0 || !S().active) { owner = -1; hb.on_store(std::memory_order_release); real.unlock(); return; }
		if(S().abort) return;
		held_count()--;
		hb.on_store(std::memory_order_release);
		real.unlock();
		{
			auto &s = S();
			Ignore ig;
			std::unique_lock<std::mutex> lk(s.bm);
			owner = -1;
			for(int k = 0; k < s.nthreads; k++) if(s.st[k] == St::blocked && s.blocked_on[k] == this) { s.st[k] = St::runnable; s.blocked_on[k] = nullptr; }
		}
		point();
	}
	static int &held_count() { static thread_local int n = 0; return n; }
};

struct Result { std::string verdict; uint64_t steps, switches; bool aborted; };

// Runs the thread bodies under the scheduler. `choose(n)` supplies the choices.
inline Result run(std::vector<std::function<void()>> bodies, std::function<uint32_t(size_t)> choose, uint64_t max_steps = 200000) {
	auto &s = S();
	{
		Ignore ig;
		std::unique_lock<std::mutex> lk(s.bm);
		s.nthreads = (int)bodies.size();
		s.st.assign(s.nthreads, St::runnable); s.blocked_on.assign(s.nthreads, nullptr); s.spin_epoch.assign(s.nthreads, 0); s.after_spin.assign(s.nthreads, false); s.op_pending.assign(s.nthreads, false);
		s.progress = s.steps = s.switches = 0; s.abort = false; s.verdict.clear(); s.choose = choose; s.trace_sizes.clear(); s.fair_tail = false; s.rr = 0; s.run_length = 0; s.grace_progress = ~0ull; s.grace_rounds = 0; s.grace_rr = 0; s.max_steps = max_steps;
		s.current = -1; s.active = true;
		vclock::fork_all(s.nthreads);
	}
	std::vector<std::thread> th;
	for(int k = 0; k < (int)bodies.size(); k++) {
		th.emplace_back([k, &bodies] {
			tid = k;
			sched_mutex::held_count() = 0;
			auto &s = S();
			try {
				{ Ignore ig; std::unique_lock<std::mutex> lk(s.bm); s.cv.wait(lk, [&] { return s.current == k || s.abort; }); if(s.abort) { lk.unlock(); throw Abort{}; } }
				bodies[k]();
			} catch(Abort &) {}
			{ Ignore ig; std::unique_lock<std::mutex> lk(s.bm); s.st[k] = St::done; if(s.op_pending[k]) { s.progress++; s.op_pending[k] = false; } if(!s.abort) pick_next_locked(-1); s.cv.notify_all(); }
			tid = -1;
		});
	}
	{
		Ignore ig;
		std::unique_lock<std::mutex> lk(s.bm);
		pick_next_locked(-1);
		s.cv.notify_all();
		s.cv.wait(lk, [&] { bool all = true; for(auto x : s.st) if(x != St::done) all = false; return all || s.abort; });
		if(s.abort) s.cv.notify_all();
	}
	for(auto &t : th) t.join();
	vclock::join_all(s.nthreads);
	Result r{s.verdict, s.steps, s.switches, s.abort};
	{ Ignore ig; std::unique_lock<std::mutex> lk(s.bm); s.active = false; }
	return r;
}

// Schedule strategies, decoded from the tape (pick(5)). 0, 4: a uniform choice among the enabled threads at every point (the depth-first
// enumerators use this one). 1, 3 (2): few pre-emptions - the running thread continues unless the tape element is a multiple of
// 8 (32), in which case one of the others is chosen. Defects that need a particular order of a few events inside long
// stretches of undisturbed execution are reached far more often that way than with a switch at every other point.
template<typename TapeT>
inline std::function<uint32_t(size_t)> make_chooser(TapeT &t, unsigned mode) {
	unsigned sticky_left = 0;
	return [&t, mode, sticky_left](size_t n) mutable -> uint32_t {
		if(t.done()) return 0;
		uint32_t x = t.next();
		if(mode & 0x100) {
			// window hunting: right before a read-modify-write the thread is usually pre-empted and the others run undisturbed for a while
			if(n < 2) return 0;
			if(sticky_left) { sticky_left--; return 0; }
			if(S().at_rmw && (x % 4)) { sticky_left = 4 + (x / 4) % 24; return 1 + (x / 128) % (n - 1); }
			return (x % 8) ? 0 : 1 + (x / 8) % (n - 1);
		}
		if(mode == 0 || mode == 4 || n < 2) return x % n;
		unsigned period = mode == 2 ? 32 : 8;
		return (x % period) ? 0 : 1 + (x / period) % (n - 1);
	};
}
// the schedule mode of a case, from one tape element: low part 0..4 as before (shrunk tapes hold small values and keep their meaning),
// and one quarter of the larger values select the window-hunting mode
template<typename TapeT> inline unsigned pick_mode(TapeT &t) { uint32_t raw = t.next(); unsigned m = raw % 5; if((raw / 5) % 4 == 3) m |= 0x100; return m; }

inline void begin_fair_tail() { auto &s = S(); Ignore ig; std::unique_lock<std::mutex> lk(s.bm); s.fair_tail = true; }

} // namespace dsched
