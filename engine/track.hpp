// Instruments shared by the sequential harnesses (DESIGN.md 1.4):
//   verif::Tracked      element type with an address-keyed lifetime registry
//   verif::track_alloc  allocator with a block registry, fill patterns and size checks
// Every violation is recorded as a pending error (first one wins) that the harness turns into an
// oracle failure of C16 (lifetime / allocation discipline) at the next poll().
#pragma once
#include <cstdint>
#include <cstdlib>
#include <cstring>
#include <cstdio>
#include <string>
#include <unordered_map>
#include <unordered_set>
#include <utility>
#include <new>

namespace verif {

struct Registry {
	std::unordered_map<const void *, uint64_t> live_obj;           // address -> serial
	std::unordered_set<const void *> unclaimed;                    // objects whose destruction nobody owes any more (see disclaim())
	std::unordered_map<void *, size_t> live_blk;                   // block -> size
	std::unordered_map<void *, int> blk_owner;                     // block -> id of the allocator instance that handed it out
	uint64_t serial = 0, constructed = 0, destroyed = 0, allocs = 0, frees = 0, default_constructed = 0;
	uint64_t copies = 0, moves = 0;
	std::string error;                                             // first pending error
	size_t fail_alloc_at = 0;                                      // 0 = never (1-based ordinal)
	void err(const char *fmt, const void *p, long a = 0, long b = 0) {
		if(!error.empty()) return;
		char buf[256]; snprintf(buf, sizeof buf, fmt, p, a, b); error = buf;
	}
	void reset() {
		for(auto &kv : live_blk) ::free(kv.first);
		live_blk.clear(); blk_owner.clear(); live_obj.clear(); unclaimed.clear(); error.clear();
		serial = constructed = destroyed = allocs = frees = default_constructed = copies = moves = 0;
		fail_alloc_at = 0;
	}
};
inline Registry &reg() { static Registry r; return r; }

// Element with observable lifetime. `v` is the payload compared against the reference model;
// `chk` lets readers validate that an object is fully constructed.
struct Tracked {
	int v;
	uint32_t chk;
	static uint32_t mk(int v) { return 0xC0DE0000u ^ (uint32_t)v * 2654435761u; }
	void born() {
		auto &r = reg();
		if(r.live_obj.count(this)) r.err("construction over a live object at %p", this);
		r.unclaimed.erase(this);
		r.live_obj[this] = ++r.serial; r.constructed++;
	}
	bool alive(const char *what) const {
		auto &r = reg();
		if(!r.live_obj.count(this)) { r.err(what, this); return false; }
		if(chk != mk(v)) { r.err("object at %p has a corrupted body", this); return false; }
		return true;
	}
	Tracked() : v(0), chk(mk(0)) { born(); reg().default_constructed++; }
	Tracked(int x) : v(x), chk(mk(x)) { born(); }
	Tracked(const Tracked &o) : v(0), chk(mk(0)) {
		if(o.alive("copy-construction from a non-live object at %p")) { v = o.v; chk = o.chk; }
		born(); reg().copies++;
	}
	Tracked(Tracked &&o) noexcept : v(0), chk(mk(0)) {
		if(o.alive("move-construction from a non-live object at %p")) { v = o.v; chk = o.chk; o.v = -1; o.chk = mk(-1); }
		born(); reg().moves++;
	}
	Tracked &operator=(const Tracked &o) {
		bool a = alive("assignment to a non-live object at %p");
		bool b = o.alive("assignment from a non-live object at %p");
		if(a && b) { v = o.v; chk = o.chk; }
		reg().copies++;
		return *this;
	}
	Tracked &operator=(Tracked &&o) noexcept {
		bool a = alive("move-assignment to a non-live object at %p");
		bool b = o.alive("move-assignment from a non-live object at %p");
		if(a && b && this != &o) { v = o.v; chk = o.chk; o.v = -1; o.chk = mk(-1); }
		reg().moves++;
		return *this;
	}
	~Tracked() {
		auto &r = reg();
		auto it = r.live_obj.find(this);
		if(it == r.live_obj.end()) {
			if(r.unclaimed.erase(this)) { chk = 0xDEADDEAD; return; }       // a disclaimed object may be destroyed by whoever holds it, once, or never
			r.err("destruction of a non-live object at %p", this); return;
		}
		r.live_obj.erase(it); r.destroyed++;
		chk = 0xDEADDEAD;
	}
	int get() const { alive("read of a non-live object at %p"); return v; }
	bool operator==(const Tracked &o) const { return get() == o.get(); }
	bool operator!=(const Tracked &o) const { return get() != o.get(); }
	bool operator<(const Tracked &o) const { return get() < o.get(); }
};

// move-only / copy-only flavours (C17)
struct TrackedMO : Tracked {
	TrackedMO() = default; TrackedMO(int x) : Tracked(x) {}
	TrackedMO(TrackedMO &&) = default; TrackedMO &operator=(TrackedMO &&) = default;
	TrackedMO(const TrackedMO &) = delete; TrackedMO &operator=(const TrackedMO &) = delete;
};
struct TrackedCO : Tracked {
	TrackedCO() = default; TrackedCO(int x) : Tracked(x) {}
	TrackedCO(const TrackedCO &o) : Tracked(static_cast<const Tracked &>(o)) {}
	TrackedCO &operator=(const TrackedCO &o) { Tracked::operator=(static_cast<const Tracked &>(o)); return *this; }
};

// Serial number given to a Tracked object when it was constructed (0: not alive). An operation that the standard type specifies as
// "destroy the old value, construct a new one" (emplace) must leave an object whose serial is newer than the call.
// The owner gave the object up in a way that leaves open who destroys it and when (rcu_radixtree::erase only clears the presence bit:
// the value may be destroyed by the caller after a grace period, by the tree when the slot is used again or when the tree dies, or
// not at all). From here on the object is not counted as alive, may not be read, and may be destroyed at most once or constructed over.
inline void disclaim(const Tracked *t) { auto &r = reg(); if(r.live_obj.erase(t)) r.unclaimed.insert(t); else r.err("disclaim of a non-live object at %p", t); }
inline uint64_t birth_of(const Tracked *t) { auto &r = reg(); auto it = r.live_obj.find(t); return it == r.live_obj.end() ? 0 : it->second; }
inline uint64_t birth_of(const int *) { return ~uint64_t(0); }
inline int payload(int x) { return x; }
inline int payload(const Tracked &t) { return t.get(); }

struct track_alloc {
	int id = 0;      // identifies the pool this handle refers to: a block must be given back to the pool it came from
	// A handle that was moved from no longer refers to its pool (think of a reference-counted arena handle): using it is an error.
	// Copies are independent handles to the same pool.
	bool moved_from = false;
	track_alloc() = default;
	track_alloc(int i) : id(i) {}
	track_alloc(const track_alloc &o) : id(o.id), moved_from(o.moved_from) {}
	track_alloc(track_alloc &&o) noexcept : id(o.id), moved_from(o.moved_from) { o.moved_from = true; }
	track_alloc &operator=(const track_alloc &o) { id = o.id; moved_from = o.moved_from; return *this; }
	track_alloc &operator=(track_alloc &&o) noexcept { if(this != &o) { id = o.id; moved_from = o.moved_from; o.moved_from = true; } return *this; }
	void check_handle(const char *what) { if(moved_from) reg().err(what, this); }
	void *allocate(size_t n) {
		check_handle("allocate() through an allocator handle at %p that was moved from");
		auto &r = reg();
		r.allocs++;
		if(r.fail_alloc_at && r.allocs == r.fail_alloc_at) return nullptr;
		void *p = ::malloc(n ? n : 1);
		memset(p, 0xA5, n ? n : 1);
		r.live_blk[p] = n; r.blk_owner[p] = id;
		return p;
	}
	void release(void *p, long n, bool sized) {
		check_handle("a block is given back through an allocator handle at %p that was moved from");
		auto &r = reg();
		if(!p) { r.err("deallocation of a null pointer %p", p); return; }
		auto it = r.live_blk.find(p);
		if(it == r.live_blk.end()) { r.err("free of %p which is not a live block (double or foreign free)", p); return; }
		if(sized && (size_t)n != it->second) r.err("deallocate(%p, %ld) of a block allocated with %ld bytes", p, n, (long)it->second);
		if(r.blk_owner[p] != id) r.err("block %p was obtained from allocator #%ld but is given back to allocator #%ld", p, (long)r.blk_owner[p], (long)id);
		r.blk_owner.erase(p);
		memset(p, 0xDD, it->second ? it->second : 1);
		r.live_blk.erase(it); r.frees++;
		::free(p);
	}
	void free(void *p) { if(!p) return; release(p, 0, false); }
	void deallocate(void *p, size_t n) { if(!p) return; release(p, (long)n, true); }
	void *reallocate(void *p, size_t n) {
		auto &r = reg();
		if(!p) return allocate(n);
		auto it = r.live_blk.find(p);
		if(it == r.live_blk.end()) { r.err("realloc of %p which is not a live block", p); return nullptr; }
		void *q = allocate(n);
		memcpy(q, p, it->second < n ? it->second : n);
		release(p, 0, false);
		return q;
	}
};

// The registries decide C16 only. Under another focus their findings are dropped instead of
// ending the case (the C16 check runs the same histories and reports them there).
// poll pending instrument errors
#define VTRACK_POLL(c) do { if(!(c).focused("C16")) { verif::reg().error.clear(); break; } \
	if(!verif::reg().error.empty()) { std::string e_ = verif::reg().error; verif::reg().error.clear(); (c).fail("C16", "%s", e_.c_str()); } } while(0)
// end-of-case: the owner has been destroyed, nothing may remain
#define VTRACK_END(c) do { if(!(c).focused("C16")) { verif::reg().error.clear(); break; } \
	if(!verif::reg().error.empty()) { std::string e_ = verif::reg().error; verif::reg().error.clear(); (c).fail("C16", "%s", e_.c_str()); } \
	if(!verif::reg().live_obj.empty()) (c).fail("C16", "%zu element object(s) still alive after their owner was destroyed (constructed %llu, destroyed %llu)", verif::reg().live_obj.size(), (unsigned long long)verif::reg().constructed, (unsigned long long)verif::reg().destroyed); \
	if(!verif::reg().live_blk.empty()) (c).fail("C16", "%zu block(s) still allocated after their owner was destroyed (allocs %llu, frees %llu)", verif::reg().live_blk.size(), (unsigned long long)verif::reg().allocs, (unsigned long long)verif::reg().frees); } while(0)

} // namespace verif
