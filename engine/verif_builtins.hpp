// Schedule points, clocks (vclock.hpp) and TSan fence mirroring for code that uses the GCC/Clang __atomic_* builtins on plain objects
// (spinlock.hpp today; any header after a refactoring). Function-like macros of the same names forward to these templates (a macro does
// not re-expand its own name, and the templates below are compiled before the macros exist), see verif_atomic_begin.hpp.
#pragma once
#include <atomic>
#include "dsched.hpp"
namespace vhooks {
	using vclock::rel_of; using vclock::note_rmw;
#define VERIF_RMW(name) template<typename P, typename V> inline auto name(P p, V v, int mo) { dsched::point_rmw(); rel_of(p).on_rmw((std::memory_order)mo); vclock::mirror_write(p, (std::memory_order)mo); auto r = __atomic_##name(p, v, mo); vclock::mirror_read(p, (std::memory_order)mo); note_rmw(); return r; }
	VERIF_RMW(fetch_add) VERIF_RMW(fetch_sub) VERIF_RMW(fetch_or) VERIF_RMW(fetch_and) VERIF_RMW(fetch_xor) VERIF_RMW(fetch_nand)
	VERIF_RMW(add_fetch) VERIF_RMW(sub_fetch) VERIF_RMW(or_fetch) VERIF_RMW(and_fetch) VERIF_RMW(xor_fetch) VERIF_RMW(nand_fetch) VERIF_RMW(exchange_n)
#undef VERIF_RMW
	template<typename P> inline auto load_n(P p, int mo) { dsched::point(); auto r = __atomic_load_n(p, mo); rel_of(p).on_load((std::memory_order)mo); vclock::mirror_read(p, (std::memory_order)mo); return r; }
	template<typename P, typename R> inline void load(P p, R ret, int mo) { dsched::point(); __atomic_load(p, ret, mo); rel_of(p).on_load((std::memory_order)mo); vclock::mirror_read(p, (std::memory_order)mo); }
	template<typename P, typename V> inline void store_n(P p, V v, int mo) { dsched::point(); rel_of(p).on_store((std::memory_order)mo); vclock::mirror_write(p, (std::memory_order)mo); __atomic_store_n(p, v, mo); }
	template<typename P, typename V> inline void store(P p, V v, int mo) { dsched::point(); rel_of(p).on_store((std::memory_order)mo); vclock::mirror_write(p, (std::memory_order)mo); __atomic_store(p, v, mo); }
	template<typename P, typename V, typename R> inline void exchange(P p, V v, R ret, int mo) { dsched::point_rmw(); rel_of(p).on_rmw((std::memory_order)mo); vclock::mirror_write(p, (std::memory_order)mo); __atomic_exchange(p, v, ret, mo); vclock::mirror_read(p, (std::memory_order)mo); note_rmw(); }
	// compare-exchange: a read-modify-write with the success order when it succeeds, a load with the failure order when it fails
	template<typename P, typename E, typename V> inline bool compare_exchange_n(P p, E e, V v, bool weak, int smo, int fmo) {
		dsched::point_rmw();
		auto cur = __atomic_load_n(p, __ATOMIC_RELAXED);
		if(cur == *e) { rel_of(p).on_rmw((std::memory_order)smo); vclock::mirror_write(p, (std::memory_order)smo); bool ok = __atomic_compare_exchange_n(p, e, v, false, smo, fmo); vclock::mirror_read(p, (std::memory_order)smo); if(ok) note_rmw(); return ok; }
		(void)weak; *e = __atomic_load_n(p, fmo); rel_of(p).on_load((std::memory_order)fmo); vclock::mirror_read(p, (std::memory_order)fmo); return false;
	}
	template<typename P> inline bool test_and_set(P p, int mo) { dsched::point_rmw(); rel_of(p).on_rmw((std::memory_order)mo); vclock::mirror_write(p, (std::memory_order)mo); bool r = __atomic_test_and_set(p, mo); vclock::mirror_read(p, (std::memory_order)mo); note_rmw(); return r; }
	template<typename P> inline void clear(P p, int mo) { dsched::point(); rel_of(p).on_store((std::memory_order)mo); vclock::mirror_write(p, (std::memory_order)mo); __atomic_clear(p, mo); }
	inline void thread_fence(int mo) { dsched::point(); __atomic_thread_fence(mo); vclock::on_fence((std::memory_order)mo); vclock::mirror_fence((std::memory_order)mo); }
}
