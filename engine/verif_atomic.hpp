// Interposition of std::atomic for headers that use it directly (rcu_radixtree.hpp, qs.hpp):
//   #include <atomic> and every other std header first, then
//   #define atomic verif_atomic / #include <frg/...> / #undef atomic
// std::verif_atomic<T> wraps a real std::atomic<T>, forwards the SAME memory order and makes every
// access a schedule point. No frigg source is modified.
#pragma once
#include <atomic>
#include "dsched.hpp"

namespace std {
template<typename T>
struct verif_atomic {
	std::atomic<T> a;
	mutable vclock::Rel hb;          // release clock attached to the current value (vclock.hpp)
	using value_type = T;
	static constexpr bool is_always_lock_free = std::atomic<T>::is_always_lock_free;
	verif_atomic() noexcept = default;
	constexpr verif_atomic(T v) noexcept : a(v) {}
	verif_atomic(const verif_atomic &) = delete;
	verif_atomic &operator=(const verif_atomic &) = delete;
	T load(std::memory_order mo = std::memory_order_seq_cst) const { dsched::point(); T v = a.load(mo); hb.on_load(mo); vclock::mirror_read(&a, mo); return v; }
	void store(T v, std::memory_order mo = std::memory_order_seq_cst) { dsched::point(); hb.on_store(mo); vclock::mirror_write(&a, mo); a.store(v, mo); }
	T exchange(T v, std::memory_order mo = std::memory_order_seq_cst) { dsched::point_rmw(); hb.on_rmw(mo); vclock::mirror_write(&a, mo); T r = a.exchange(v, mo); vclock::mirror_read(&a, mo); vclock::note_rmw(); return r; }
	T fetch_add(T v, std::memory_order mo = std::memory_order_seq_cst) { dsched::point_rmw(); hb.on_rmw(mo); vclock::mirror_write(&a, mo); T r = a.fetch_add(v, mo); vclock::mirror_read(&a, mo); vclock::note_rmw(); return r; }
	T fetch_sub(T v, std::memory_order mo = std::memory_order_seq_cst) { dsched::point_rmw(); hb.on_rmw(mo); vclock::mirror_write(&a, mo); T r = a.fetch_sub(v, mo); vclock::mirror_read(&a, mo); vclock::note_rmw(); return r; }
	T fetch_or(T v, std::memory_order mo = std::memory_order_seq_cst) { dsched::point_rmw(); hb.on_rmw(mo); vclock::mirror_write(&a, mo); T r = a.fetch_or(v, mo); vclock::mirror_read(&a, mo); vclock::note_rmw(); return r; }
	T fetch_and(T v, std::memory_order mo = std::memory_order_seq_cst) { dsched::point_rmw(); hb.on_rmw(mo); vclock::mirror_write(&a, mo); T r = a.fetch_and(v, mo); vclock::mirror_read(&a, mo); vclock::note_rmw(); return r; }
	T fetch_xor(T v, std::memory_order mo = std::memory_order_seq_cst) { dsched::point_rmw(); hb.on_rmw(mo); vclock::mirror_write(&a, mo); T r = a.fetch_xor(v, mo); vclock::mirror_read(&a, mo); vclock::note_rmw(); return r; }
	T operator++() { return fetch_add(1) + 1; }
	T operator++(int) { return fetch_add(1); }
	T operator--() { return fetch_sub(1) - 1; }
	T operator--(int) { return fetch_sub(1); }
	T operator+=(T v) { return fetch_add(v) + v; }
	T operator-=(T v) { return fetch_sub(v) - v; }
	T operator|=(T v) { return fetch_or(v) | v; }
	T operator&=(T v) { return fetch_and(v) & v; }
	T operator^=(T v) { return fetch_xor(v) ^ v; }
	void wait(T old, std::memory_order mo = std::memory_order_seq_cst) const { while(load(mo) == old) dsched::spin_yield(); }
	void notify_one() noexcept {}
	void notify_all() noexcept {}
	bool is_lock_free() const noexcept { return a.is_lock_free(); }
	bool compare_exchange_weak(T &e, T d, std::memory_order s, std::memory_order f) { dsched::point_rmw(); vclock::mirror_write(&a, s); bool ok = a.compare_exchange_strong(e, d, s, f); if(ok) { hb.on_rmw(s); vclock::mirror_read(&a, s); vclock::note_rmw(); } else { hb.on_load(f); vclock::mirror_read(&a, f); } return ok; }
	bool compare_exchange_strong(T &e, T d, std::memory_order s, std::memory_order f) { dsched::point_rmw(); vclock::mirror_write(&a, s); bool ok = a.compare_exchange_strong(e, d, s, f); if(ok) { hb.on_rmw(s); vclock::mirror_read(&a, s); vclock::note_rmw(); } else { hb.on_load(f); vclock::mirror_read(&a, f); } return ok; }
	bool compare_exchange_weak(T &e, T d, std::memory_order m = std::memory_order_seq_cst) { return compare_exchange_weak(e, d, m, fail_order(m)); }
	bool compare_exchange_strong(T &e, T d, std::memory_order m = std::memory_order_seq_cst) { return compare_exchange_strong(e, d, m, fail_order(m)); }
	static constexpr std::memory_order fail_order(std::memory_order m) { return m == std::memory_order_acq_rel ? std::memory_order_acquire : m == std::memory_order_release ? std::memory_order_relaxed : m; }
	operator T() const { return load(); }
	T operator=(T v) { store(v); return v; }
};
// std::atomic_flag and std::atomic_ref<T>, interposed with  #define atomic_flag verif_atomic_flag  /  #define atomic_ref verif_atomic_ref
struct verif_atomic_flag {
	std::atomic_flag f;
	mutable vclock::Rel hb;
	constexpr verif_atomic_flag() noexcept : f{}, hb{} {}
	constexpr verif_atomic_flag(int) noexcept : f{}, hb{} {}          // ATOMIC_FLAG_INIT
	verif_atomic_flag(const verif_atomic_flag &) = delete;
	verif_atomic_flag &operator=(const verif_atomic_flag &) = delete;
	bool test_and_set(std::memory_order mo = std::memory_order_seq_cst) noexcept { dsched::point_rmw(); hb.on_rmw(mo); vclock::mirror_write(&f, mo); bool r = f.test_and_set(mo); vclock::mirror_read(&f, mo); vclock::note_rmw(); return r; }
	void clear(std::memory_order mo = std::memory_order_seq_cst) noexcept { dsched::point(); hb.on_store(mo); vclock::mirror_write(&f, mo); f.clear(mo); }
	bool test(std::memory_order mo = std::memory_order_seq_cst) const noexcept { dsched::point(); bool r = f.test(mo); hb.on_load(mo); vclock::mirror_read(&f, mo); return r; }
	void wait(bool old, std::memory_order mo = std::memory_order_seq_cst) const noexcept { while(test(mo) == old) dsched::spin_yield(); }
	void notify_one() noexcept {}
	void notify_all() noexcept {}
};
template<typename T>
struct verif_atomic_ref {
	std::atomic_ref<T> r; T *p;
	using value_type = T;
	static constexpr bool is_always_lock_free = std::atomic_ref<T>::is_always_lock_free;
	static constexpr size_t required_alignment = std::atomic_ref<T>::required_alignment;
	explicit verif_atomic_ref(T &x) noexcept : r(x), p(&x) {}
	verif_atomic_ref(const verif_atomic_ref &) noexcept = default;
	bool is_lock_free() const noexcept { return r.is_lock_free(); }
	T load(std::memory_order mo = std::memory_order_seq_cst) const noexcept { dsched::point(); T v = r.load(mo); vclock::rel_of(p).on_load(mo); vclock::mirror_read(p, mo); return v; }
	void store(T v, std::memory_order mo = std::memory_order_seq_cst) const noexcept { dsched::point(); vclock::rel_of(p).on_store(mo); vclock::mirror_write(p, mo); r.store(v, mo); }
#define VERIF_REF_RMW(name) T name(T v, std::memory_order mo = std::memory_order_seq_cst) const noexcept { dsched::point_rmw(); vclock::rel_of(p).on_rmw(mo); vclock::mirror_write(p, mo); T o = r.name(v, mo); vclock::mirror_read(p, mo); vclock::note_rmw(); return o; }
	VERIF_REF_RMW(exchange) VERIF_REF_RMW(fetch_add) VERIF_REF_RMW(fetch_sub) VERIF_REF_RMW(fetch_or) VERIF_REF_RMW(fetch_and) VERIF_REF_RMW(fetch_xor)
#undef VERIF_REF_RMW
	bool compare_exchange_strong(T &e, T d, std::memory_order s, std::memory_order f) const noexcept { dsched::point_rmw(); vclock::mirror_write(p, s); bool ok = r.compare_exchange_strong(e, d, s, f); if(ok) { vclock::rel_of(p).on_rmw(s); vclock::mirror_read(p, s); vclock::note_rmw(); } else { vclock::rel_of(p).on_load(f); vclock::mirror_read(p, f); } return ok; }
	bool compare_exchange_weak(T &e, T d, std::memory_order s, std::memory_order f) const noexcept { return compare_exchange_strong(e, d, s, f); }
	bool compare_exchange_strong(T &e, T d, std::memory_order m = std::memory_order_seq_cst) const noexcept { return compare_exchange_strong(e, d, m, verif_atomic<T>::fail_order(m)); }
	bool compare_exchange_weak(T &e, T d, std::memory_order m = std::memory_order_seq_cst) const noexcept { return compare_exchange_strong(e, d, m, verif_atomic<T>::fail_order(m)); }
	operator T() const noexcept { return load(); }
	T operator=(T v) const noexcept { store(v); return v; }
	T operator++() const noexcept { return fetch_add(1) + 1; }
	T operator++(int) const noexcept { return fetch_add(1); }
	T operator--() const noexcept { return fetch_sub(1) - 1; }
	T operator--(int) const noexcept { return fetch_sub(1); }
	T operator+=(T v) const noexcept { return fetch_add(v) + v; }
	T operator-=(T v) const noexcept { return fetch_sub(v) - v; }
};
template<typename T> verif_atomic_ref(T &) -> verif_atomic_ref<T>;
// std::atomic_thread_fence, interposed with  #define atomic_thread_fence verif_atomic_thread_fence  (verif_atomic_begin.hpp)
inline void verif_atomic_thread_fence(std::memory_order mo) noexcept { dsched::point(); std::atomic_thread_fence(mo); vclock::on_fence(mo); vclock::mirror_fence(mo); }
inline void verif_atomic_signal_fence(std::memory_order mo) noexcept { std::atomic_signal_fence(mo); }
}
