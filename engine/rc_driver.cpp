// Generic rapidcheck front end: generates tapes (vectors of 32-bit integers) and hands them to
// the harness's decoder through a C callback. Built once by setup (it is the only TU that
// includes rapidcheck, which is slow to compile); does not include frigg.
#include <rapidcheck.h>
#include <cstdint>
#include <cstdio>
#include <cstdlib>
#include <string>
#include <vector>

extern "C" int verif_rc_search(uint64_t seed, int max_success, int max_size, int len_scale,
		int (*run)(const uint32_t *, size_t, void *), void *ud) {
	// rapidcheck is configured only through RC_PARAMS
	std::string params = "seed=" + std::to_string(seed) + " max_success=" + std::to_string(max_success)
		+ " max_size=" + std::to_string(max_size) + " max_discard_ratio=100 noshrink=0";
	if(const char *extra = getenv("VERIF_RC_EXTRA")) { params += " "; params += extra; }
	setenv("RC_PARAMS", params.c_str(), 1);

	// Element mixture: mostly small values (simple choices first, operands are taken modulo the
	// population by the decoder), some medium, some full-range. inRange collapses at small
	// sizes, hence the resize wrappers.
	auto elem = rc::gen::weightedOneOf<uint32_t>({
		{4, rc::gen::resize(100, rc::gen::inRange<uint32_t>(0, 4))},
		{4, rc::gen::resize(100, rc::gen::inRange<uint32_t>(0, 16))},
		{3, rc::gen::resize(100, rc::gen::inRange<uint32_t>(0, 256))},
		{2, rc::gen::resize(100, rc::gen::inRange<uint32_t>(0, 65536))},
		{2, rc::gen::arbitrary<uint32_t>()},
		{1, rc::gen::element<uint32_t>(0xffffffffu, 0x7fffffffu, 0x80000000u, 0xfffffffeu)},
	});
	auto tapeGen = rc::gen::scale((double)len_scale, rc::gen::container<std::vector<uint32_t>>(elem));

	bool ok = rc::check("tape", [&]() {
		auto tape = *tapeGen;
		int r = run(tape.data(), tape.size(), ud);
		RC_ASSERT(r == 0);
	});
	return ok ? 0 : 1;
}
