"""Which harnesses decide which property, with which budgets.  Read by /verif/check."""

# harness name -> build spec
HARNESSES = {
    'radix_seq': {'san': 'asan'},
    'seqcont_seq': {'san': 'asan'},
    'hashmap_seq': {'san': 'asan'},
    'holders_seq': {'san': 'asan'},
    'unique_seq': {'san': 'asan'},
    'bits_seq': {'san': 'asan'},
    'guard_seq': {'san': 'asan'},
    'slab_conc': {'san': 'tsan'},
    'qs_conc': {'san': 'tsan'},
    'radix_conc': {'san': 'tsan'},
    'spin_conc': {'san': 'tsan'},
    'qs_seq': {'san': 'asan'},
    'parsers_fuzz': {'san': 'asan', 'cxxflags': ['-fno-sanitize=nonnull-attribute'], 'fuzz_raw': True},
    'printf_diff': {'san': 'asan', 'cxxflags': ['-fno-sanitize=nonnull-attribute']},
    # the same harness on a platform where plain char is unsigned (aarch64, riscv, ...): %hhd/%c must not depend on it
    'printf_diff_uchar': {'san': 'asan', 'source': 'printf_diff.cpp', 'cxxflags': ['-fno-sanitize=nonnull-attribute', '-funsigned-char', '-DVERIF_HARNESS_NAME="printf_diff_uchar"']},
    'rbtree_seq': {'san': 'asan'},
    'interval_seq': {'san': 'asan'},
    'pheap_seq': {'san': 'asan'},
    'slab_seq': {'san': 'asan'},
    'slab_seq_track': {'san': 'asan', 'source': 'slab_seq.cpp', 'cxxflags': ['-DFRG_SLAB_TRACK_REGIONS', '-DVERIF_SLAB_VARIANTS=1', '-DVERIF_HARNESS_NAME="slab_seq_track"']},
    'slab_seq_soft': {'san': 'asan', 'source': 'slab_seq.cpp', 'cxxflags': ['-DVERIF_SLAB_VARIANTS=4', '-DVERIF_HARNESS_NAME="slab_seq_soft"']},
    # basic_string memcpy()s from a null buffer with length 0 (default-constructed strings): no listed property
    # speaks about zero-length copies, so UBSan's nonnull-attribute check is off for this harness (DESIGN.md 2.3)
    'string_seq': {'san': 'asan', 'cxxflags': ['-fno-sanitize=nonnull-attribute']},
}

# Second compiler: the sequential harnesses are built once more with g++ 12 -O2 (same decoder, same oracles, same replay tapes) and run in
# the thorough tier; code whose behaviour depends on what one compiler makes of undefined or unspecified constructs shows up as a difference.
def _gcc(name, base=None):
    spec = dict(HARNESSES[base or name])
    spec.update({'cxx': 'g++', 'opt': '-O2', 'source': spec.get('source', (base or name) + '.cpp'), 'replay_as': base or name})
    spec['cxxflags'] = [f for f in spec.get('cxxflags', []) if not f.startswith('-DVERIF_HARNESS_NAME')]
    HARNESSES[name + '_gcc'] = spec
for _h in ('radix_seq', 'seqcont_seq', 'hashmap_seq', 'holders_seq', 'unique_seq', 'bits_seq', 'guard_seq', 'qs_seq', 'printf_diff',
           'rbtree_seq', 'interval_seq', 'pheap_seq', 'string_seq', 'slab_seq', 'parsers_fuzz'):
    _gcc(_h)

def gcc_run(harness, cases, sizes, enum=False):
    t = {'rc': rc(cases, sizes=sizes, workers=8)}
    if enum: t['enum'] = True
    return {'harness': harness + '_gcc', 'thorough': t}

def rc(cases, size=100, scale=4, workers=None, sizes=None):
    d = {'cases': cases, 'size': size, 'scale': scale}
    if workers: d['workers'] = workers
    if sizes: d['sizes'] = sizes
    return d

PROPS = {
    'C09': {
        'runs': [{'harness': 'radix_seq',
                  'quick': {'enum': True, 'rc': rc(6000, sizes=[60, 100, 200])},
                  'thorough': {'enum': True, 'rc': rc(120000, sizes=[60, 100, 200, 400]),
                               'fuzz': {'seconds': 120}}}],
        'rule': 'tapes decoded into insert/find_or_insert/find/erase/re-insert/iterate histories over structurally '
                'derived 64-bit keys (bases 0, 2^64-1, 2^63, random; keys first differing from an existing key at a '
                'chosen nibble 0..15; dense runs; reuse); oracle: std::map reference of (address, generation), all keys '
                'ever used re-looked-up after every update, full ordered iteration. Non-trivial: >= 3 keys present at '
                'once, >= 1 prefix split above the leaf level and >= 1 erase followed by a re-insert of the same key; '
                'distinct = hash of the decoded history.',
        'required_tags': ['split-depth-%d' % d for d in range(15)] + ['same-leaf', 'reinsert'],
        'min_cases': {'quick': 20000, 'thorough': 400000},
        'level_text': 'generated-history search against a std::map reference model plus a complete enumeration of the two/three-key histories over every first-differing nibble; held on everything generated, no claim beyond that',
        'level_note': 'trusts std::map as the reference, the key generator reaching every split depth (enforced: the check fails itself if a depth class is empty), ASan/UBSan for memory and shift errors',
        'technique': 'model-based property testing (rapidcheck tapes + small-scope enumeration + libFuzzer) against a std::map reference',
        'assumptions': ['single-threaded histories; insert only of absent keys, erase only of present keys (the code asserts both)',
                        'x86-64, clang 14, ASan+UBSan reports are turned into case failures'],
    },
}

PROPS['C13'] = {
    'runs': [{'harness': 'seqcont_seq',
              'quick': {'rc': rc(5000, sizes=[60, 100, 200])},
              'thorough': {'rc': rc(100000, sizes=[60, 100, 200, 400]), 'fuzz': {'seconds': 120}}}],
    'rule': 'first tape element picks container x element type (vector, small_vector<T,4>, small_vector<T,1>, dyn_array, stack, list for '
            'T=int and T=Tracked; intrusive_list), the rest decodes into an operation history over up to three container slots '
            '(push/emplace/pop/resize/clear/copy- and move-construct/assign/swap/==/index write; intrusive: push/insert/erase/pop/clear/splice); '
            'oracle: std::vector/deque reference compared after every operation (size, empty, front/back, every index, iteration, const '
            'accessors, backward links and in_list flags). Non-trivial: the element count crossed a growth threshold and shrank again, or a '
            'copy/move/swap/assign between two non-empty containers happened (intrusive: a splice of two non-empty lists or a mid insert and '
            'mid erase); distinct = hash of the decoded history. Further element types: Anchored (trivially destructible, observable move), Fuzzy '
            '(trivially copyable, == modulo 16), Braced (initializer_list constructor: T{x} != T(x)). Arguments that alias the container: push/emplace_back/'
            'resize(n, v) with an own element (with and without reallocation), push(move(own element)), stack push(top()), resize(n, T(x)) with an rvalue, '
            'self-swap, near-copies compared with ==; nested owners node{id, vector<node>} with kids = kids[k].kids (copy, move), push of an own element, '
            'assignment of a container to a vector owned by one of its elements (model: deep copy taken before the call).',
    'required_tags': ['kind-%d' % k for k in range(28)] + ['owned-push_front-nonempty', 'owned-insert-middle', 'append-own-owner', 'alias-arg-realloc', 'alias-arg-in-place', 'resize-rvalue-multi', 'sv-self-swap-inline', 'assign-from-owned-copy', 'assign-from-owned-move', 'stack-push-top', 'equal-but-not-bytewise', 'grew-then-shrank', 'pair-op-nonempty', 'splice-nonempty', 'sv-swap-inline-heap', 'sv-move-inline'],
    'min_cases': {'quick': 20000, 'thorough': 400000},
    'level_text': 'generated operation histories against std::vector/std::deque reference sequences, compared after every operation; held on everything generated',
    'level_note': 'trusts the std containers as reference, ASan+UBSan and the exact-size tracking allocator for the own-storage clause; the state of a moved-from container is not asserted, it is only required to stay readable',
    'technique': 'model-based property testing (rapidcheck tapes, libFuzzer on the same decoder) against std::vector/std::deque references',
    'assumptions': ['pop/front/back/top only on non-empty containers, index < size (preconditions of the API)', 'moved-from containers: only validity is required'],
}
PROPS['C16'] = {
    'runs': [{'harness': 'seqcont_seq',
              'quick': {'rc': rc(4000, sizes=[60, 100, 200])},
              'thorough': {'rc': rc(60000, sizes=[60, 100, 200, 400]), 'fuzz': {'seconds': 90}}},
             {'harness': 'radix_seq',
              'quick': {'rc': rc(2000, sizes=[60, 100])},
              'thorough': {'rc': rc(40000, sizes=[60, 100, 200])}}],
    'rule': 'the histories of the container, hash_map, string, holder, unique_ptr and radix-tree harnesses run with the lifetime-registering element '
            'type Tracked and the block-registering allocator track_alloc; oracle (history invariant, evaluated at the offending call): no construction '
            'over a live object, no read/move-from/assign/destroy of a non-live object, deallocate with the allocated size, no double/foreign free, '
            'nothing alive or allocated after the owners are destroyed. Non-trivial: the owner released at least one element or block before its '
            'destruction (pop/erase/remove/reset/assignment over a full owner/shrinking resize); distinct = hash of the decoded history.',
    'rule_extension': 'small_vector self-swap (empty/inline/heap); unique_ptr whose owned object calls reset()/release() on its owner from its destructor (std::unique_ptr::reset stores the new pointer first); hash_map keys with observable lifetime (aliasing battery); blocks are checked against the pool (allocator id) they came from.',
    'required_tags': ['kind-1', 'kind-3', 'kind-5', 'kind-7', 'kind-9', 'kind-11', 'erase'],
    'min_cases': {'quick': 20000, 'thorough': 300000},
    'level_text': 'history invariant over generated operation sequences, decided by an address-keyed lifetime registry and a block registry; held on everything generated',
    'level_note': 'trusts the registries (engine/track.hpp); radix-tree erase leaves destruction of the erased value to the caller (DESIGN.md C16), the harness plays that part',
    'technique': 'stateful property testing with a lifetime-registering element type and a tracking allocator (history invariant)',
    'assumptions': ['Tracked and track_alloc observe every constructor/destructor/allocate/free call made by the containers'],
}

PROPS['C14'] = {
    'runs': [{'harness': 'hashmap_seq',
              'quick': {'rc': rc(8000, sizes=[60, 100, 200])},
              'thorough': {'rc': rc(50000, sizes=[60, 100, 200, 400]), 'fuzz': {'seconds': 120}}}],
    'rule': 'tape picks value type (int / Tracked), one of 7 hash functions (frg::hash, identity, constant, k&3, top bits only, well mixed 64-bit, '
            'near UINT_MAX; all return 64-bit values that go through the map\'s unsigned cast), key universe (0..15 or up to 2^20 / random 64-bit) '
            'and optionally initializer-list construction, then a history of insert(absent) const&/&&, operator[] on present/absent keys with a write '
            'through the reference, get, find, const find, remove present/absent, iteration and bulk inserts crossing 10/20/40/80 entries; oracle: '
            'std::map reference, every key ever used is looked up with get/find/const find after every operation, iteration compared as a map. '
            'Non-trivial: a rehash happened while earlier entries were present (followed by the full lookup sweep) and an operator[] insertion of an '
            'absent key happened at size == capacity (the table block was reallocated during the call); distinct = hash of the decoded history.',
    'rule_extension': 'aliasing battery hash_map<TKey,Obj> (key with observable lifetime whose move changes its hash; the value carries its key): insert(o.name, move(o)), insert(o.name, o), insert of a copy of a value read through get(), operator[] while a pointer into the map is live, remove(find(k)->key), bulk inserts across rehashes; oracle std::map plus the entry invariant key == value.name.',
    'required_tags': ['hash-mode-%d' % k for k in range(7)] + ['size-past-10', 'size-past-20', 'size-past-40', 'size-past-80', 'emptied-and-refilled', 'bracket-insert-at-capacity', 'init-list'],
    'min_cases': {'quick': 15000, 'thorough': 300000},
    'level_text': 'generated operation histories against a std::map reference with a full lookup sweep after every operation; held on everything generated',
    'level_note': 'trusts std::map; insert() is only called for absent keys as the property states',
    'technique': 'model-based property testing (rapidcheck tapes, libFuzzer on the same decoder) against a std::map reference',
    'assumptions': ['insert only of absent keys', 'iterators are not kept across updates'],
}
PROPS['C16']['runs'].append({'harness': 'hashmap_seq', 'quick': {'rc': rc(1500, sizes=[60, 100])}, 'thorough': {'rc': rc(30000, sizes=[60, 100, 200])}})

PROPS['C15'] = {
    'runs': [{'harness': 'string_seq',
              'quick': {'enum': True, 'rc': rc(25000, sizes=[40, 80, 160])},
              'thorough': {'enum': True, 'rc': rc(60000, sizes=[40, 80, 160, 300]), 'fuzz': {'seconds': 120}}}],
    'rule': 'batteries: a pair (A,B) of byte strings (alphabet {a,b,NUL} up to length 3 - enumerated exhaustively -, digit strings, arbitrary '
            'bytes, longer low-entropy strings, and B derived from A by prefix/suffix/one-byte change/append) placed in exact-size heap buffers and '
            'run through every view operation (==, find_first with every start, find_first_of, find_last, every sub_string, starts_with/ends_with, '
            'to_number, hash) and every string operation (all constructors, copy, assignment, self-assignment, swap, resize to every length, + and += '
            'with view and char, push_back, self-append, compare/== with string and C string, hash); histories: random sequences of the mutating '
            'operations over three string slots; oracle: std::string / std::string_view reference, terminator, ASan on sources and own buffer. '
            'Non-trivial: both operands non-empty and related (search hit at index > 0, comparison differing at a position > 0, prefix/suffix '
            'relation) or a history in which a concatenation/append joined two non-empty parts; distinct = hash of the decoded case.',
    'rule_extension': 'wide battery: the same operands widened to char16_t and char32_t so that code units which agree modulo 256 (and, for char32_t, modulo 65536) occur in both operands; ==, find_first, find_last, find_first_of, sub_string, starts_with/ends_with on views; construction, compare, +, +=, push_back(0), += view of itself, resize, assignment, swap on basic_string<Char>; oracle std::basic_string(_view)<Char>; ASan for the terminator slot.',
    'required_tags': ['battery', 'history', 'to_number-digits', 'to_number-nondigit'],
    'min_cases': {'quick': 20000, 'thorough': 300000},
    'level_text': 'exhaustive over all pairs of strings up to length 3 over {a,b,NUL} plus generated longer inputs and histories, against std::string/std::string_view; held on everything generated',
    'level_note': 'trusts std::string(_view), strtoull, ASan redzones behind exact-size sources; compare() sign is only asserted where length-first and lexicographic order agree; resize() tail bytes are unspecified',
    'technique': 'differential property testing against std::string/string_view (exhaustive small alphabet + rapidcheck tapes + libFuzzer), ASan on exact-size buffers',
    'assumptions': ['C-string entry points get NUL-terminated input', 'sub_string within range', 'to_number only checked for values that fit the type'],
}
PROPS['C16']['runs'].append({'harness': 'string_seq', 'quick': {'rc': rc(800, sizes=[40, 80])}, 'thorough': {'rc': rc(20000, sizes=[40, 80, 160])}})

PROPS['C17'] = {
    'runs': [{'harness': 'holders_seq',
              'quick': {'enum': True, 'rc': rc(50000, sizes=[40, 80, 160])},
              'thorough': {'enum': True, 'rc': rc(150000, sizes=[40, 80, 160, 300]), 'fuzz': {'seconds': 120}}}],
    'rule': 'pair cases: the complete product destination state x source state x operation for optional<T> (T in int, Tracked, move-only, copy-only; '
            'copy/move construct/assign), variant<int,Tracked,TB> (3 alternatives + empty; copy/move assign/construct) and expected<Err,T> (value/error; '
            'copy/move assign/construct), enumerated exhaustively; histories: random sequences over three slots of each holder (construct empty/null_opt/'
            'value/converting, assign from optional<U>, null_opt, emplace, converting variant assignment, unwrap, map, map_error, write through accessors), '
            'manual_box initialize/construct_with/destruct cycles, six tuple batteries (construct/copy/move/convert/make_tuple, apply order, tuple_cat of 2 '
            'and 3 with lvalue/const/rvalue arguments, reference tuples, tuple_cat over reference elements) with generated values; oracle: std::optional / '
            'index+payload models compared after every operation, accessor addresses inside the holder, std::tuple_cat. Non-trivial: an operation whose '
            'source and destination states differ, a manual_box destruct/re-initialise cycle, or a tuple battery over >= 2 tuples; distinct = hash of the decoded case.',
    'rule_extension': 'emplace freshness: after optional/variant emplace the held object was constructed during the call (construction serial newer than the call), as std::optional/std::variant::emplace destroy and construct; value-initialisation battery: manual_box/optional/variant re-initialised without arguments over storage that held a non-zero scalar/POD must hold T().',
    'required_tags': ['kind-%d' % k for k in range(11)] + ['extra-%d' % k for k in range(4)] + ['tuple-%d' % k for k in range(6)] + ['manual_box', 'variant-pair-d3-s3-op0', 'optional-pair-d0-s0-op2', 'expected-pair-d0-s0-op1', 'self-assign'],
    'min_cases': {'quick': 20000, 'thorough': 300000},
    'level_text': 'complete enumeration of the (destination state x source state x operation) products plus generated histories against std::optional/std::variant-style models; held on everything generated',
    'level_note': 'trusts the models; moved-from holders are modelled like the std types (state kept, Tracked payload marked)',
    'technique': 'model-based property testing (exhaustive state-pair enumeration + rapidcheck histories + libFuzzer) against std::optional/variant/tuple semantics',
    'assumptions': ['accessors only on engaged holders / active alternatives (asserted by the code)'],
}
PROPS['C16']['runs'].append({'harness': 'holders_seq', 'quick': {'enum': True, 'rc': rc(1500, sizes=[40, 80])}, 'thorough': {'enum': True, 'rc': rc(30000, sizes=[40, 80, 160])}})
PROPS['C16']['runs'].append({'harness': 'unique_seq', 'quick': {'rc': rc(1500, sizes=[40, 80])}, 'thorough': {'rc': rc(30000, sizes=[40, 80, 160])}})
PROPS['C16']['required_tags'] += ['unique_ptr', 'unique_memory', 'battery', 'history', 'kind-8', 'tuple-2']

PROPS['C18'] = {
    'runs': [{'harness': 'bits_seq',
              'quick': {'enum': True, 'rc': rc(6000, sizes=[40, 80, 160])},
              'thorough': {'enum': True, 'rc': rc(120000, sizes=[40, 80, 160, 300]), 'fuzz': {'seconds': 120}}}],
    'rule': 'bitset<N> for N in {1,2,7,8,31,32,33,63,64,65,100,127,128,129,191,192,193,255,256,257,300}: two sets placed in 0xA5-filled, canary-fenced '
            'storage, histories of construct-from-integer (any 64-bit value), set/reset/flip/test, whole-set forms, operator[] proxies (= bool, = proxy of '
            'the same/other set, ~, flip, conversion), &= |= ^= ~, << >> <<= >>= by 0..N+130 (word multiples, N-1..N+1, beyond N), binary & | ^, ==; '
            'oracle: bit-by-bit equality with std::bitset<N> plus count/any/all/none after every operation, canaries. array<int,N> N in {1,2,3,8} at exact '
            'heap size vs std::array (front/back/index/iteration/==/swap/get/array_concat of 2 and 3). mt19937 vs std::mt19937 (boundary + random seeds, '
            '>= 1900 draws, re-seed mid-stream, default seed); pcg_basic32 vs an independent implementation of the published algorithm + the published '
            'known-answer vector (42,54), bounded draws for boundary and random bounds. insertion_sort: permutation + no comp(earlier, later), all arrays '
            'over {0,1,2} up to length 6 x 3 comparators exhaustively, random longer ones. Non-trivial (bitset): a shift by >= 64 or a multi-word N with a '
            'non-zero result after a shift; (others) every generated case; distinct = hash of the decoded case.',
    'required_tags': ['bitset-%d' % n for n in (1, 2, 7, 8, 31, 32, 33, 63, 64, 65, 100, 127, 128, 129, 191, 192, 193, 255, 256, 257, 300)] + ['array', 'mt19937', 'pcg32', 'pcg-known-answer', 'sort', 'ref-not', 'shift>=N'],
    'min_cases': {'quick': 20000, 'thorough': 300000},
    'level_text': 'differential testing against std::bitset/std::array/std::mt19937 and an independent pcg32, exhaustive small arrays for the sort; held on everything generated',
    'level_note': 'trusts libstdc++ as reference and the published pcg32 known-answer vector; bits beyond N are observed only through count()/all()/==',
    'technique': 'differential property testing against standard-library references (rapidcheck tapes, exhaustive small scopes, libFuzzer)',
    'assumptions': ['bit indices < N', 'bound > 0', 'strict weak order comparators'],
}

SLAB_GEN = ('first tape elements pick the policy configuration (10 size/alignment configurations: all defaults with unaligned map, defaults aligned, 16K slabs/9 '
            'buckets, 32K slabs with 3 objects of the largest class, 12K slab in a 64K superblock aligned and unaligned, 64K pages, 28K slab that is not a '
            'multiple of its largest class, page = slab = superblock = 64K aligned and unaligned; {cfgs}) and a fault plan, then a history of allocate / free / deallocate(requested|reported size) / realloc '
            '(random, within the class, just leaving the class, shrinking, growing) / realloc(null,n) / realloc(p,0) / free(null) / get_size / churn phases '
            '(k blocks of one class allocated and freed in generated order for r rounds) / realloc chains; sizes from 0, class sizes +-1, the small/large '
            'threshold +-1, page multiples +-1, uniform small, up to 3 superblocks. The policy hands out never-reused addresses from one arena, logs every '
            'callback, fills fresh memory with 0xCD and ASan-poisons unmapped regions. ')
def slab_runs(q, th, enum=False, soft=False):
    extra = [{'harness': 'slab_seq_soft', 'quick': {'enum': enum, 'rc': rc(q // 2, sizes=[60, 120, 250], workers=8)}, 'thorough': {'enum': enum, 'rc': rc(th // 2, sizes=[60, 120, 250], workers=10)}}] if soft else []
    return extra + [{'harness': 'slab_seq', 'quick': {'enum': enum, 'rc': rc(q, sizes=[60, 120, 250])}, 'thorough': {'enum': enum, 'rc': rc(th, sizes=[60, 120, 250, 500]), 'fuzz': {'seconds': 150}}},
            {'harness': 'slab_seq_track', 'quick': {'rc': rc(q // 3, sizes=[60, 120], workers=6)}, 'thorough': {'rc': rc(th // 3, sizes=[60, 120, 250], workers=8)}}]
CFG_TAGS = ['cfg-' + n for n in ('defaults/unaligned', 'defaults/aligned', 'slab16K/aligned/9', 'slab32K/unaligned/11', 'slab12K-sb64K/aligned/10', 'page64K/unaligned/13', 'slab28K-sb32K/aligned/11', 'slab12K-sb64K/unaligned/10', 'page64K-slab64K-sb64K/aligned/9', 'page64K-slab64K-sb64K/unaligned/9')]
PROPS['C01'] = {
    'runs': slab_runs(900, 20000),
    'rule': SLAB_GEN.format(cfgs='without poison hooks') + 'Oracle after every call: the requested and the reported extent of the new block lie inside one currently mapped region, are disjoint from every '
            'other live block and from the frame header, the pointer is aligned to min(page, max(8, pow2ceil(n))), get_size() >= n and unchanged at every later touch, '
            'a per-block fill pattern over the whole reported size is intact (an allocator write into a live block breaks it). Non-trivial: the history reuses a freed '
            'block\'s class, touches >= 2 classes and >= 1 large block; distinct = hash of (configuration, decoded history).',
    'required_tags': CFG_TAGS + ['class-reuse', 'large', 'moving-realloc'],
    'min_cases': {'quick': 8000, 'thorough': 150000},
    'level_text': 'generated allocation histories over 8 policy configurations against an interval/region model with content patterns; held on everything generated',
    'level_note': 'trusts the harness policy (arena, region log) and ASan; class sizes are recomputed independently (8,16,32,64,128,...)',
    'technique': 'stateful model-based property testing (rapidcheck tapes, libFuzzer) with a region/interval model and content patterns',
    'assumptions': ['single thread', 'configurations in which at least two objects of the largest class fit behind the slab header'],
}
PROPS['C02'] = {
    'runs': slab_runs(900, 20000),
    'rule': SLAB_GEN.format(cfgs='without poison hooks') + 'Oracle: after realloc the first min(old, new) bytes equal the old pattern, an unmoved block keeps address and reported size, (null,n) '
            'allocates, (p,0) frees and returns null, free/deallocate of null make no policy call and leave the page counter alone; the contents of all live blocks are '
            'verified after every call; footprint: slabs ever mapped for a class <= ceil(peak live blocks of the class / objects per slab), with objects per slab '
            'calibrated on a scratch pool and cross-checked against floor(slab/size) - ceil(512/size) <= n <= floor(slab/size). Non-trivial: >= 1 moving realloc, >= 1 '
            'in-place realloc and >= 1 churn round that refilled a previously full slab without mapping; distinct = hash of the decoded history.',
    'required_tags': CFG_TAGS + ['moving-realloc', 'inplace-realloc', 'churn-refill'],
    'min_cases': {'quick': 8000, 'thorough': 150000},
    'level_text': 'generated histories with content patterns and a per-class footprint bound; held on everything generated',
    'level_note': 'objects-per-slab is calibrated against the tree under test and only loosely bounded independently',
    'technique': 'stateful model-based property testing (content round-trip through realloc, footprint invariant over the history)',
    'assumptions': ['single thread'],
}
PROPS['C03'] = {
    'runs': slab_runs(900, 20000),
    'rule': SLAB_GEN.format(cfgs='each with and without poison/unpoison/unpoison_expand hooks') + 'Oracle on the callback log: every unmap equals exactly one mapped (base,len), once, with no live block '
            'other than the one being freed inside; a freed large block\'s reservation is unmapped in the same call, every mapped region is a slab or holds a live large '
            'block; numUsedPages() changes per call by exactly the increments of the regions taken/returned (increment recorded when a region kind is first seen, > 0, '
            'consistent afterwards), ends at the sum over mapped slabs; poisoning policies forward to ASan\'s shadow, map returns poisoned memory: requested bytes of '
            'live blocks unpoisoned (touched blocks every step, sweep every 16 steps), freed small blocks poisoned except the first word, every hook call inside a mapped '
            'region, and any use-after-poison report is an access by the pool. Non-trivial: a large block freed (unmap) while other blocks are live and, under a '
            'poisoning policy, a realloc that leaves its class; distinct = hash of the decoded history.',
    'required_tags': CFG_TAGS + [t + '+poison' for t in CFG_TAGS] + ['large-free-with-live', 'realloc-left-class'],
    'min_cases': {'quick': 8000, 'thorough': 150000},
    'level_text': 'generated histories with a complete log of policy callbacks and ASan shadow as poison model; held on everything generated',
    'level_note': 'poison state is ASan\'s shadow (8-byte granules); a sanitizer report is attributed to the focused property',
    'technique': 'stateful model-based property testing with callback-log invariants and ASan manual poisoning as the poison oracle',
    'assumptions': ['single thread', 'unpoison_expand makes a range accessible whatever its previous state (managarm KASAN semantics)'],
}
PROPS['C04'] = {
    'level': 'fault_enumeration',
    'runs': slab_runs(900, 20000, enum=True, soft=True),
    'rule': SLAB_GEN.format(cfgs='without poison hooks') + 'Fault plans: a random mask over the map-call ordinals (density 1/4), one failing ordinal, two failing ordinals; enumeration: for base '
            'histories with 2..26 map calls every single position and every pair of positions fails. Oracle: the call during which map returned 0 returns null; all live '
            'blocks keep address, reported size and contents, the mapped-region set and numUsedPages() are unchanged, no pool lock is held (instrumented mutex); the same '
            'request repeated with mapping enabled succeeds; the history continues under the C01-C03 oracle. Non-trivial: >= 1 injected failure was hit by a small '
            'allocation, a large allocation or a copying realloc; distinct = hash of (fault plan, decoded history).',
    'required_tags': ['fault-small', 'fault-large', 'fault-realloc', 'fault-hit'] + [t + '+softpoison' for t in CFG_TAGS],
    'min_cases': {'quick': 8000, 'thorough': 150000},
    'level_text': 'every single and every pair of Policy::map positions failed for a family of base histories, plus random fault masks over generated histories',
    'level_note': 'fault points are the calls to Policy::map only (the only fallible call the pool makes); base histories are a fixed deterministic family',
    'technique': 'fault-injection enumeration over generated histories (single and double map() failures) with a model-unchanged oracle',
    'assumptions': ['single thread', 'map() is the only operation that can fail'],
}

RM_TAGS = ['fixrm-%s-%s' % (s, k) for s in 'LR' for k in ('sibling-red', 'nephews-black-parent-red', 'nephews-black-parent-black', 'far-nephew-red', 'near-nephew-red')]
INS_TAGS = ['fixins-%s-%s' % (s, k) for s in 'LR' for k in ('uncle-red', 'outer', 'inner')]
PROPS['C06'] = {
    'runs': [{'harness': 'rbtree_seq',
              'quick': {'enum': True, 'rc': rc(8000, sizes=[60, 120, 250])},
              'thorough': {'enum': True, 'rc': rc(40000, sizes=[60, 120, 250, 500]), 'fuzz': {'seconds': 120}}}],
    'rule': 'keyed tree (comparator on the key only; key universes 8, 64, 65536 so duplicates are common) and order tree (insert(before, x) with before = any contained '
            'node or null): histories of insert / remove of any contained node / re-insertion of removed nodes, up to ~300 nodes; enumeration: every insertion '
            'order of n <= 5 (thorough 6) distinct keys and every key sequence over {0,1,2} with duplicates, each followed by every removal order. Oracle after every '
            'operation: reference vector in stable sorted (resp. positional) order == first()+successor walk == in-order walk over left/right == reversed predecessor '
            'walk; predecessor(successor(x)) == x; parent links match child links; root black, no red node with a red child, equal black heights, height <= '
            '2*log2(n+1); a removed node has its five link fields null and can be inserted again. Non-trivial: >= 1 removal of a node with two children and >= 1 '
            'removal from a tree of size >= 4; the histogram classifies every insert/remove fix-up case (mirrored variants separately); distinct = hash of the history.',
    'required_tags': RM_TAGS + INS_TAGS + ['rm-two-children', 'rm-root', 'order-insert-before', 'order-insert-last', 'reinsert-removed-node', 'keyed', 'order', 'size>100'],
    'min_cases': {'quick': 30000, 'thorough': 600000},
    'level_text': 'exhaustive over all insertion x removal orders up to 5 (6) nodes incl. duplicates, generated histories up to ~300 nodes against a reference sequence; held on everything generated',
    'level_note': 'colours are read from the public hook field; the colour of a removed node is not asserted',
    'technique': 'model-based property testing with structural invariants (exhaustive small scopes + rapidcheck histories + libFuzzer)',
    'assumptions': ['nodes are inserted into at most one tree at a time'],
}

PROPS['C07'] = {
    'runs': [{'harness': 'interval_seq',
              'quick': {'enum': True, 'rc': rc(8000, sizes=[60, 120, 250])},
              'thorough': {'enum': True, 'rc': rc(40000, sizes=[60, 120, 250, 500]), 'fuzz': {'seconds': 120}}}],
    'rule': 'histories of insert [lo,hi] (lo <= hi; universe 0..7 so duplicates, nested, touching and point intervals are common, or 0..100000), remove of any '
            'stored interval, re-insertion of removed nodes, and queries; after every update over the small universe ALL 36 two-argument queries, all 8 one-argument '
            'queries and three outside/spanning queries are asked (a wrong subtree_max cannot hide); enumeration: every sequence of <= 3 (thorough 4) intervals over '
            'endpoints 0..3, every single removal, all queries after every step. Oracle: the callback runs exactly once for every stored interval with lo <= ub and lb <= hi '
            '(linear scan) and for no other; the one-argument form equals lb = ub. Non-trivial: a query on a tree of >= 3 intervals whose answer is neither empty '
            'nor everything, asked after >= 1 removal; distinct = hash of the decoded history.',
    'required_tags': ['point-interval', 'duplicate-interval', 'nested-interval', 'touching-intervals', 'small-universe', 'large-universe', 'scripted', 'reinsert-removed-node'],
    'min_cases': {'quick': 20000, 'thorough': 400000},
    'level_text': 'exhaustive over a small endpoint universe (all insertion sequences, single removals, all queries) plus generated histories against a linear scan; held on everything generated',
    'level_note': 'trusts the linear-scan reference',
    'technique': 'model-based property testing (exhaustive small universe + rapidcheck histories + libFuzzer) against a linear-scan oracle',
    'assumptions': ['lo <= hi and lb <= ub'],
}
PROPS['C08'] = {
    'runs': [{'harness': 'pheap_seq',
              'quick': {'enum': True, 'rc': rc(8000, sizes=[60, 120, 250])},
              'thorough': {'enum': True, 'rc': rc(40000, sizes=[60, 120, 250, 500]), 'fuzz': {'seconds': 120}}}],
    'rule': 'histories of push / pop / remove over priorities from a tiny range (ties), ascending, descending or random; remove picks its victim by position in the '
            'traversal of the hook links, so root, first child, middle sibling, last sibling, only child and leaves are explicit choices; removed elements are pushed '
            'again; every case ends with a full drain; enumeration: all push sequences over {0,1,2} up to 6 (thorough 7) elements x every single remove x drain. Oracle '
            'after every operation: empty() iff reference empty, top() contained and ordered before no contained element, the elements reachable over child/sibling '
            'equal the reference set, every backlink consistent, no child ordered after its parent, pop removed exactly top(), remove(x) exactly x, removed hooks reset; '
            'the drain is non-increasing and a permutation. Non-trivial: a remove of a non-root element that has children, or a pop with >= 3 children; '
            'distinct = hash of the decoded history.',
    'required_tags': ['remove-root', 'remove-first-child', 'remove-middle-sibling', 'remove-last-sibling', 'remove-only-child', 'remove-leaf', 'pop-odd-children', 'pop-even-children', 'prio-mode-0', 'prio-mode-1', 'prio-mode-2', 'prio-mode-3', 'repush-removed-element'],
    'min_cases': {'quick': 20000, 'thorough': 400000},
    'level_text': 'exhaustive over small push sequences with ties x single removals plus generated histories against a reference multiset with structural invariants; held on everything generated',
    'level_note': 'the hook fields child/backlink/sibling are public and read by the oracle',
    'technique': 'model-based property testing (exhaustive small scopes + rapidcheck histories + libFuzzer) against a reference multiset',
    'assumptions': ['elements are in at most one heap'],
}

PROPS['C19'] = {
    'runs': [{'harness': 'printf_diff_uchar', 'quick': {'rc': rc(15000, sizes=[30, 60], workers=6)}, 'thorough': {'rc': rc(100000, sizes=[30, 60, 120], workers=8)}},
             {'harness': 'printf_diff',
              'quick': {'rc': rc(80000, sizes=[30, 60, 120])},
              'thorough': {'rc': rc(300000, sizes=[30, 60, 120, 200]), 'fuzz': {'seconds': 150}}}],
    'rule': 'printf: 1-3 directives from the grammar %[n$][flags][width|*][.prec|.*][hh|h|l|ll|z|t|j]{d,i,u,o,x,X}, %[n$][-][width|*][.prec|.*]{c,s}, %p, literal text '
            'incl. %%; flags any subset ISO C defines for the conversion; widths 1..70 literal or * in -70..70; precisions none/./0..70/.* in -6..70; values from the '
            'boundary set of every length modifier (0, +-1, min, max and neighbours) and random; strings with lengths around the precision; all-positional formats with a '
            'permutation of 1..N. The arguments are a hand-made SysV va_list over an exact-size heap array; oracle: byte equality with glibc vsnprintf on the same list '
            '(%p compared with 0x%lx). fmt(): format strings from the grammar ([0-9]+)?(:0?[0-9]*[bcdioXx]?)? plus malformed specs, out-of-range positions, {{, unclosed '
            'specs over a fixed 7-tuple of argument types with generated values; oracle: an independent interpreter of the grammar. stack_buffer_logger<Sink,Limit> for '
            'Limit in {2,3,8,128} with messages of 1-4 pieces and total length around k*(Limit-1)+-2; oracle: concatenated chunks == message, every chunk shorter than '
            'Limit, begin once, finalize(true) once. Non-trivial: a directive with >= 2 flags, width together with precision, or a boundary value; a fmt spec with width and '
            'conversion, a malformed/out-of-range spec; a logger message that needs >= 2 chunks; distinct = hash of the decoded case.',
    'required_tags': ['printf', 'fmt', 'positional', 'string-unterminated-with-precision', 'fmt-negative-char', 'star-width', 'star-width-negative', 'star-precision', 'star-precision-negative', 'precision0-value0', 'fmt-malformed', 'fmt-position-out-of-range',
                      'fmt-unclosed', 'fmt-zero-fill', 'logger-2', 'logger-3', 'logger-8', 'logger-128', 'logger-exact-multiple'] + ['conv-' + x for x in 'diuoxXcsp'] + ['len-' + x for x in ('hh', 'h', 'l', 'll', 'z', 't', 'j')]
                     + ['flags-' + x for x in ('+-', '-0', '#-', '#0', '+0', '_-', '_0', '_+', "'-", "'0")],
    'min_cases': {'quick': 100000, 'thorough': 1500000},
    'level_text': 'differential testing against glibc vsnprintf over generated directives and boundary values, a grammar interpreter for fmt(), chunk reassembly for the logger; held on everything generated',
    'level_note': 'trusts glibc 2.36 as the ISO C reference in the "C" locale (x86-64 SysV va_list layout); flag/conversion combinations that ISO C leaves undefined are not generated',
    'technique': 'differential property testing against glibc printf and an independent fmt-grammar interpreter (rapidcheck tapes + libFuzzer on the directive decoder)',
    'assumptions': ['x86-64 SysV ABI', 'C locale', 'no %lc/%ls, no floating point conversions (outside the property)'],
}

PROPS['C20'] = {
    'runs': [{'harness': 'parsers_fuzz',
              'quick': {'enum': True, 'rc': rc(30000, sizes=[10, 30, 80], scale=1)},
              'thorough': {'enum': True, 'rc': rc(400000, sizes=[10, 30, 80, 200], scale=1),
                           'fuzz': {'seconds': 240, 'max_len': 512, 'dict': 'corpus/C20/parsers.dict', 'timeout': 30}}}],
    'rule': 'tape element 0 selects the parser (printf_format, fmt(), parse_arguments, to_number) and a variant (argument strings, argument tuples incl. none, four '
            'option tables incl. an empty and a joined one, six target integer types), every further element is one input byte placed in an exact-size heap buffer; '
            'enumeration: every string up to length 4 (thorough 5) over "%$*.-+01 9lhdscx" for printf, up to 5 (6) over "{}:019xc" for fmt, up to 7 (8) over '
            '\'" =a1\' and 5 (6) over the joined-table alphabet for the command line, up to 6 over "09a" for each to_number type, plus digit runs of length 1..40 in '
            'every numeric position; rapidcheck: 3/4 of the bytes drawn from the parser\'s meta characters, the rest arbitrary; libFuzzer: arbitrary bytes <= 512 with a '
            'token dictionary and the literals of tests.cpp as seeds. printf reads a hand-made va_list with exactly count(%)+count(*)+9[$] slots. Oracle: no ASan/UBSan '
            'report, canaries around the option targets intact, string_view targets inside the input buffer, the call returns or stops through frg_panic (counted). '
            'Termination: a case that uses 20 s of CPU is a hang (confirmed by 3 replays). Non-trivial: the input contains a meta character of its parser and has >= 2 '
            'bytes; distinct = hash of (parser, variant, bytes).',
    'required_tags': ['parser-printf', 'parser-fmt', 'parser-cmdline', 'parser-to_number', 'printf-dollar', 'printf-star', 'cmdline-quote', 'cmdline-unbalanced-quote', 'to_number-long-digits', 'ended-in-frg_panic', 'completed'],
    'min_cases': {'quick': 200000, 'thorough': 3000000},
    'level_text': 'exhaustive over short strings of the syntactically relevant characters for each parser, plus generated and coverage-guided longer inputs, under ASan+UBSan with exact-size buffers; held on everything generated',
    'level_note': 'trusts ASan/UBSan to expose out-of-bounds accesses and signed overflow; frg_panic is an allowed outcome; conversions outside the property (floats, %n) are rejected by the agent',
    'technique': 'fuzzing (exhaustive small alphabets, rapidcheck byte strings, libFuzzer with dictionary) of the four parsers under ASan+UBSan with exact-size buffers and argument lists',
    'assumptions': ['x86-64 SysV va_list layout', 'inputs up to 4 KiB'],
}

PROPS['C11'] = {
    'runs': [{'harness': 'qs_conc',
              'quick': {'enum': True, 'rc': rc(1500, sizes=[20, 60, 150], scale=2)},
              'thorough': {'enum': True, 'rc': rc(30000, sizes=[20, 60, 150, 300], scale=2)}},
             {'harness': 'qs_seq',
              'quick': {'rc': rc(8000, sizes=[40, 80, 160])},
              'thorough': {'rc': rc(150000, sizes=[40, 80, 160, 300]), 'fuzz': {'seconds': 120}}}],
    'rule': 'layer 2 (atomic/lock granularity, harness-owned scheduler, TSan, std::atomic inside qs.hpp interposed with the same memory orders, sched_mutex as domain mutex): 2-3 agent threads - an updater that '
            'replaces heap objects in shared slots and registers a barrier whose callback overwrites the old object, readers that load a slot (acquire), read the object\'s plain '
            'fields and later report a quiescent state or go offline/online, and (3 agents) a third agent that registers barriers of its own and cycles, so that periods are closed by '
            'a different agent than the reader; every thread ends with a fair tail (quiescent_state + run until nothing is pending); layer 3: depth-first enumeration of the '
            'interleavings of small 2-agent scripts. Oracle: the layer-1 conditions on the serialised event order, a reader never sees an overwritten object, zero TSan reports (the '
            'reader\'s plain reads before its quiescent state must happen-before the callback\'s writes), no deadlock, completion within the step limit. '
            'layer 1 (whole-operation granularity, instrumented mutex): 1-3 agents, histories of online / offline / quiescent_state / await_barrier(fresh node) / run / '
            'quiescent_barrier (only when the caller is the only online agent), followed by a fair tail of 8 rounds in which every online agent reports a quiescent state and '
            'every agent calls run(). Oracle per barrier: S = agents online at registration; the callback may only run inside run() of the registering agent, at most once, and '
            'only when every member of S has been inside quiescent_state() or offline since the registration; the callback frees its node (ASan sees any later touch by the '
            'library); every operation leaves the domain mutex free and never locks it twice; after the fair tail every registered callback has run. Non-trivial: a barrier '
            'was registered while another was pending, or an agent joined or left while a barrier was pending; distinct = hash of the decoded history.',
    'rule_extension': 'engine/vclock.hpp (C++20 release sequences): every read-side access is stamped and the reclaiming callback checks that all of them happen before it.',
    'required_tags': ['join-while-barrier-pending', 'leave-while-barrier-pending', 'two-barriers-pending', 'quiescent_barrier', 'tail-rounds-2', 'has-barrier', 'third-agent-registered-barriers', 'several-barriers', 'switches-20+', 'quiescent_barrier-concurrent'],
    'min_cases': {'quick': 30000, 'thorough': 500000},
    'level_text': 'generated agent histories against a grace-period oracle and a bounded fair-tail liveness horizon; sequentially consistent schedules only; held on everything generated',
    'level_note': 'liveness is "within 8 fair rounds"; histories in which offline() hits the documented TODO assertion (agent with a deferred grace period) are discarded and counted; at least one agent is online during the tail',
    'technique': 'stateful property testing with a history oracle (grace-period set per barrier) and bounded-liveness tail; scheduled interleavings with TSan for the memory-order clause',
    'assumptions': ['API preconditions stated by the FRG_ASSERTs', 'sequentially consistent interleavings; weak-memory outcomes only through TSan happens-before race detection'],
}
PROPS['C12'] = {
    'runs': [{'harness': 'spin_conc',
              'quick': {'enum': True, 'rc': rc(1500, sizes=[20, 60, 150], scale=2)},
              'thorough': {'enum': True, 'rc': rc(30000, sizes=[20, 60, 150, 300], scale=2)}},
             {'harness': 'guard_seq',
              'quick': {'enum': True, 'rc': rc(8000, sizes=[40, 80, 160])},
              'thorough': {'enum': True, 'rc': rc(150000, sizes=[40, 80, 160, 300]), 'fuzz': {'seconds': 90}}}],
    'rule': 'guards: three slots of unique_lock / shared_lock over two instrumented mutexes; histories of construct locked / dont_lock / adopt_lock / default, lock, unlock, '
            'move-construct, move-assign (incl. self), swap, destroy, guard() helpers; the QS lock_guard: construct, unlock, lock, destroy; enumeration of destination state x '
            'source state x {move-construct, move-assign, swap} x same/other mutex. Oracle after every operation: the mutex\'s exclusive/shared hold count equals the number of '
            'guards that say they own it, is_locked()/protects() equal the model, every release goes through the matching call, no lock of a held mutex and no unlock of a free '
            'one; at the end both mutexes are free and #acquire == #release. Non-trivial: an ownership transfer (move/swap/assign) involving an owning guard; distinct = hash '
            'of the decoded history.',
    'rule_extension': 'engine/vclock.hpp (C++20 release sequences) over the lock words: the end of a critical section is stamped and the next holder checks that it happens before its own section.',
    'required_tags': ['unique_lock', 'shared_lock', 'qs-lock_guard', 'self-move-assign', 'ticket-counters-near-wrap'],
    'min_cases': {'quick': 30000, 'thorough': 500000},
    'level_text': 'exhaustive state-pair enumeration plus generated guard histories against an ownership model with an instrumented mutex; spinlocks under a harness-owned scheduler with TSan; held on everything generated',
    'level_note': 'the instrumented mutex models a correct non-recursive mutex as seen by one thread',
    'technique': 'stateful property testing of lock guards against an ownership model; schedule-controlled interleavings of the spinlocks under TSan',
    'assumptions': ['lock() is only issued when a correct mutex would not block'],
}

PROPS['C10'] = {
    'runs': [{'harness': 'radix_conc',
              'quick': {'enum': True, 'rc': rc(2500, sizes=[20, 60, 150], scale=2)},
              'thorough': {'enum': True, 'rc': rc(50000, sizes=[20, 60, 150, 300], scale=2)}}],
    'rule': 'a universe of 2-8 keys built structurally (same leaf, first difference at a chosen nibble incl. the root and the level below it), a sequential setup, then 1-2 '
            'concurrent phases: one writer runs 1-4 insert/erase operations (an erased key is not re-inserted before the readers were joined), 1-3 readers run 1-3 find() '
            'calls each and validate the result at once with plain reads; std::atomic inside rcu_radixtree.hpp is interposed (same memory orders), every atomic access is a '
            'schedule point, the schedule comes from the tape; enumeration: for the three insertion cases (first leaf at the root, same leaf, split at the root and below it) '
            'x one find, interleavings by depth-first search over the choice points (complete in the thorough tier unless the scope says otherwise). Oracle: a non-null '
            'result holds exactly the requested key and a valid checksum (fully initialised); a key completely inserted before the find began and not being erased is found; '
            'zero TSan reports (plain reads of prefix/depth/value racing with the writer); after the phase every present key is found at its old address. Non-trivial: a '
            'reader made a step while the writer was inside an insert; distinct = hash of (keys, scripts) - schedules of one script count once.',
    'rule_extension': 'besides TSan, engine/vclock.hpp computes happens-before with C++20 release sequences over the interposed atomics; every value is stamped when constructed and each reader checks that the construction happens before its read.',
    'required_tags': ['reader-step-during-insert', 'switches-5-19'],
    'min_cases': {'quick': 20000, 'thorough': 400000},
    'level_text': 'schedule-controlled interleavings (random and depth-first over small scopes) at atomic-access granularity with TSan judging the happens-before relation of the real memory orders; held on everything generated',
    'level_note': 'interleavings are sequentially consistent; weak-memory effects are visible only as TSan data races between plain accesses; plain accesses are not pre-emption points',
    'technique': 'schedule-controlled concurrency testing (harness-owned scheduler over interposed atomics, random + DFS schedules) with TSan and a presence oracle',
    'assumptions': ['single writer', 'a slot is reused only after the readers were joined (grace period)'],
}

PROPS['C05'] = {
    'runs': [{'harness': 'slab_conc',
              'quick': {'enum': True, 'rc': rc(2500, sizes=[30, 80, 200], scale=2)},
              'thorough': {'enum': True, 'rc': rc(50000, sizes=[30, 80, 200, 400], scale=2)}},
             {'harness': 'slab_seq', 'quick': {'rc': rc(300, sizes=[60, 120], workers=6)}, 'thorough': {'rc': rc(5000, sizes=[60, 120, 250], workers=8)}}],
    'rule': 'slab_pool<Policy, sched_mutex> in a TSan build: 2-4 threads (thorough: up to 8), each running a generated script of allocate / free / deallocate / realloc over a few '
            'shared size classes (16, 64, 2048, the largest class) plus large blocks, send/receive of blocks through release/acquire mailbox slots (cross-thread frees), two policy '
            'configurations (aligned 16K slabs, unaligned 32K slabs), optionally a re-entrant policy that frees a block of its own from inside unmap; templates make "all threads '
            'start on the same empty class" common; the schedule (pre-emption at every lock operation, policy call and mailbox access) comes from the tape; enumeration: 2 threads x 2 '
            'operations on one class, interleavings by depth-first search. Oracle: a global live-block table updated at call return (exact, because execution is serialised): no block '
            'handed out twice, C01 extent/alignment/containment across threads, block contents intact, zero TSan reports on pool state, no deadlock (every thread blocked or a thread '
            're-locking a pool lock it holds), completion within the step limit, Policy::map/unmap only with no pool lock held by the caller, after all frees only slabs stay mapped and '
            'numUsedPages() equals what a sequential pool reports for the same slabs. The sequential slab harness adds the lock-hold clause with an instrumented mutex. '
            'Non-trivial: at least one context switch inside a pool call; distinct = hash of (configuration, scripts) - schedules of one script count once.',
    'required_tags': ['two-threads-constructing-a-slab-of-one-class', 'cross-thread-free', 're-entrant-unmap', 'map-failure-under-concurrency', 'threads-2', 'threads-3', 'threads-4', 'switches-20+'],
    'min_cases': {'quick': 20000, 'thorough': 400000},
    'level_text': 'schedule-controlled interleavings at lock granularity (random and depth-first over a small scope) under TSan with a serialised live-block oracle; held on everything generated',
    'level_note': 'pre-emption points are lock operations, policy calls and the client\'s mailbox accesses; plain accesses are covered by TSan only; liveness is "within the step limit under the generated schedule"',
    'technique': 'schedule-controlled concurrency testing (harness-owned scheduler via the Mutex template parameter, random + DFS schedules) with TSan and a live-block table oracle',
    'assumptions': ['the mutex type is correct (sched_mutex wraps a real std::mutex)', 'clients hand blocks over with release/acquire synchronisation'],
}

NOT_APPLICABLE = {}

# ---- second-compiler runs (thorough tier only)
PROPS['C06']['runs'].append(gcc_run('rbtree_seq', 40000, [60, 100, 200]))
PROPS['C07']['runs'].append(gcc_run('interval_seq', 30000, [60, 100, 200]))
# the order in which by-value parameters are initialised differs between the two compilers (clang: left to right, g++: right to left):
# the interval harness is cheap to build, so its g++ build also runs in the quick tier
PROPS['C07']['runs'][-1]['quick'] = {'rc': rc(3000, sizes=[60, 100], workers=4)}
PROPS['C08']['runs'].append(gcc_run('pheap_seq', 30000, [60, 100, 200]))
PROPS['C09']['runs'].append(gcc_run('radix_seq', 40000, [60, 100, 200]))
PROPS['C11']['runs'].append(gcc_run('qs_seq', 30000, [60, 100, 200]))
PROPS['C12']['runs'].append(gcc_run('guard_seq', 30000, [60, 100]))
PROPS['C13']['runs'].append(gcc_run('seqcont_seq', 40000, [60, 100, 200]))
PROPS['C14']['runs'].append(gcc_run('hashmap_seq', 20000, [60, 100, 200]))
PROPS['C15']['runs'].append(gcc_run('string_seq', 40000, [40, 80, 160]))
PROPS['C16']['runs'].append(gcc_run('unique_seq', 20000, [40, 80]))
PROPS['C16']['runs'].append(gcc_run('seqcont_seq', 20000, [60, 100, 200]))
PROPS['C17']['runs'].append(gcc_run('holders_seq', 60000, [40, 80, 160]))
PROPS['C18']['runs'].append(gcc_run('bits_seq', 20000, [60, 100, 200]))
PROPS['C19']['runs'].append(gcc_run('printf_diff', 80000, [30, 60, 120]))
PROPS['C20']['runs'].append(gcc_run('parsers_fuzz', 40000, [30, 60, 120]))
for _p in ('C01', 'C02', 'C03'):
    PROPS[_p]['runs'].append(gcc_run('slab_seq', 8000, [60, 120, 250]))

# ---- classes added after the fifth seeding round
PROPS['C14']['required_tags'] += ['alias-battery', 'key-inside-moved-value', 'remove-by-entry-key', 'insert-lvalue-from-map'] + ['keyzoo-%d' % k for k in range(5)]
PROPS['C15']['required_tags'] += ['wide-battery', 'to_number-all-types']
PROPS['C17']['required_tags'] += ['extra-4', 'extra-5', 'extra-6', 'extra-7', 'tuple-6', 'emplace-over-engaged', 'emplace-same-alternative']
PROPS['C16']['required_tags'] += ['unique_ptr-reentrant', 'unique_ptr-polymorphic']
PROPS['C18']['required_tags'] += ['shift-huge']
PROPS['C07']['required_tags'] += ['universe-all-negative', 'universe-straddles-zero', 'moving-endpoint-type']
PROPS['C12']['required_tags'] += ['misuse-refused', 'sched-mode-1', 'sched-mode-2']
PROPS['C20']['required_tags'] += ['long-literal-run', 'cmdline-null-callback-table']
PROPS['C19']['required_tags'] += ['fmt-stored-object']
PROPS['C10']['required_tags'] += ['sched-mode-1', 'sched-mode-2']
PROPS['C11']['required_tags'] += ['sched-mode-1', 'sched-mode-2']
PROPS['C05']['required_tags'] += ['sched-mode-1', 'sched-mode-2']

# ---- classes added after the sixth seeding round
PROPS['C01']['required_tags'] += ['huge-requests', 'via-slab_allocator']
PROPS['C03']['required_tags'] += ['huge-requests']
PROPS['C05']['required_tags'] += ['poison-hooks-under-concurrency']
PROPS['C08']['required_tags'] += ['long-history-small-stack']
PROPS['C11']['required_tags'] += ['barrier-registered-while-offline', 'prologue-barrier-pending', 'prologue-agent-offline']
PROPS['C13']['required_tags'] += ['memptr-resize-grow']
PROPS['C14']['required_tags'] += ['find-as-position', 'optional-valued-map', 'removed-disengaged-value']
PROPS['C15']['required_tags'] += ['huge-view']
PROPS['C18']['required_tags'] += ['bitset-self-op', 'pcg-crafted-threshold']
PROPS['C19']['required_tags'] += ['fmt-13-arguments']
PROPS['C20']['required_tags'] += ['printf-null-pointer-args', 'to_number-wide-views']

# ---- classes added after the seventh seeding round
PROPS['C06']['required_tags'] += ['default-constructed-comparator']
PROPS['C13']['required_tags'] += ['vector-detach']
PROPS['C14']['required_tags'] += ['tracked-keys-trivial-values']
PROPS['C16']['required_tags'] += ['destroyed-nonempty-tracked-keys']
PROPS['C17']['required_tags'] += ['extra-8', 'expected-wide-error-enum', 'optional-assign-empty-braces']
PROPS['C18']['required_tags'] += ['bitset-chained-mutators', 'array-concat-lvalue-strings']
PROPS['C19']['required_tags'] += ['logger-256', 'logger-257', 'logger-65536', 'logger-65537']
PROPS['C20']['required_tags'] += ['printf-all-positional-exact-args', 'cmdline-generated-option-table']
PROPS['C07']['required_tags'] += ['toggle-small-node-pool', 'reinsert-into-empty-tree']

# ---- classes that exist only for today's object layout are waived when the harness reports another layout
PROPS['C12']['waivers'] = {'ticket-counters-near-wrap': 'ticket-layout-not-two-32-bit-counters'}
PROPS['C08']['required_tags'] += ['drain-and-refill']
PROPS['C08']['waivers'] = {t: 'hook-links-not-walkable' for t in ('remove-root', 'remove-first-child', 'remove-middle-sibling', 'remove-last-sibling', 'remove-only-child', 'remove-leaf', 'pop-odd-children', 'pop-even-children')}
PROPS['C06']['waivers'] = {x: 'colour-not-readable' for x in RM_TAGS + INS_TAGS}

# ---- rule texts brought in line with the oracles after the benign rounds (DESIGN.md 11.9)
PROPS['C08']['rule'] = ('histories of push / pop / remove over priorities from a tiny range (ties), ascending, descending or random; while the hook still has the three plain '
    'link fields and they form one tree below top(), remove picks its victim by position in that tree, so root, first child, middle sibling, last sibling, only child and '
    'leaves are explicit choices (otherwise victims are picked from the reference and these classes are waived); removed elements are pushed again; in the middle of a '
    'history everything is drained and pushed again; every case ends with a full drain; enumeration: all push sequences over {0,1,2} up to 6 (thorough 7) elements x every '
    'single remove x drain. Oracle (behavioural - the link fields are never an oracle): after every operation empty() iff the reference is empty, top() is contained and '
    'ordered before no contained element; pop removed exactly top(); every drain yields each contained element exactly once in an order the comparator allows and leaves '
    'the heap empty; the hook of a removed element equals a freshly constructed one, can be pushed again, and passes the hook destructor\'s own assertion at the end. '
    'Non-trivial: a remove of a non-root element that has children, or a pop with >= 3 children (without readable links: a remove of an element other than top() or a pop with >= 4 elements); '
    'distinct = hash of the decoded history.')
PROPS['C08']['level_note'] = 'the hook fields child/backlink/sibling steer the generator and the class histogram only; top() is never called on an empty heap'
for _p in ('C01', 'C02', 'C03', 'C04'):
    PROPS[_p]['rule_extension'] = (PROPS[_p].get('rule_extension', '') + ' Model conventions: a size class is the set of small blocks that report the same size, blocks per slab is '
        'calibrated per reported size on a scratch pool (accepted if at least half of the slab holds objects); small vs. large is measured (a request is large when freeing its '
        'block at once returns a region to the policy); a reservation is a region that held a large block; a region is charged with whatever the counter rose by when it was taken; '
        'of a freed small block at most one aligned word may stay unpoisoned, wherever it is.').strip()
PROPS['C12']['rule_extension'] = (PROPS['C12'].get('rule_extension') or '') + (' Spinlocks: std::atomic, the __atomic_* builtins, fences and pause are all interposed; ticket order is the order of the '
    'lock() calls\' first successful read-modify-write; a deadlock is declared only after 4000 rounds in which every spinner ran again without any operation taking effect.')
PROPS['C06']['required_tags'] += ['two-order-trees', 'element-moved-to-the-other-tree']
PROPS['C18']['required_tags'] += ['bitset-set-nonbool-value']
PROPS['C13']['required_tags'] += ['vector-own-pool']
PROPS['C14']['required_tags'] += ['list-initialisable-values']
# g++ and clang++ resolve `T v{std::move(x)}` differently for list-initialisable T (CWG 2137): the g++ build also runs in the quick tier
for _r in PROPS['C14']['runs']:
    if _r['harness'] == 'hashmap_seq_gcc': _r['quick'] = {'rc': rc(3000, sizes=[60, 100], workers=4)}
PROPS['C09']['required_tags'] += ['plain-value-default-insert', 'plain-value-erase']

# the same printf harness with frigg's documented switch for builds without long double support (kernels): the integer, character and
# string directives must not depend on it
HARNESSES['printf_diff_nold'] = {'san': 'asan', 'source': 'printf_diff.cpp', 'replay_as': 'printf_diff',
                                 'cxxflags': ['-fno-sanitize=nonnull-attribute', '-DFRG_DONT_USE_LONG_DOUBLE', '-DVERIF_HARNESS_NAME="printf_diff_nold"']}
PROPS['C19']['runs'].append({'harness': 'printf_diff_nold', 'quick': {'rc': rc(8000, sizes=[30, 60], workers=4)}, 'thorough': {'rc': rc(60000, sizes=[30, 60, 120], workers=8)}})
PROPS['C19']['rule_extension'] = (PROPS['C19'].get('rule_extension') or '') + ' The harness is also built with -funsigned-char and with -DFRG_DONT_USE_LONG_DOUBLE.'
PROPS['C08']['level_text'] = 'exhaustive over small push sequences with ties x single removals plus generated histories against a reference multiset, behavioural oracle (top/empty after every step, full drains, hook reset); held on everything generated'
