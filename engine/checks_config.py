"""Which harnesses decide which property, with which budgets.  Read by /verif/check."""

# harness name -> build spec
HARNESSES = {
    'radix_seq': {'san': 'asan'},
}

def rc(cases, size=100, scale=4, workers=None, sizes=None):
    d = {'cases': cases, 'size': size, 'scale': scale}
    if workers: d['workers'] = workers
    if sizes: d['sizes'] = sizes
    return d

PROPS = {
    'C09': {
        'runs': [{'harness': 'radix_seq',
                  'quick': {'enum': True, 'rc': rc(6000, sizes=[60, 100, 200])},
                  'thorough': {'enum': True, 'rc': rc(120000, sizes=[60, 100, 200, 400]),
                               'fuzz': {'seconds': 120}}}],
        'rule': 'tapes decoded into insert/find_or_insert/find/erase/re-insert/iterate histories over structurally '
                'derived 64-bit keys (bases 0, 2^64-1, 2^63, random; keys first differing from an existing key at a '
                'chosen nibble 0..15; dense runs; reuse); oracle: std::map reference of (address, generation), all keys '
                'ever used re-looked-up after every update, full ordered iteration. Non-trivial: >= 3 keys present at '
                'once, >= 1 prefix split above the leaf level and >= 1 erase followed by a re-insert of the same key; '
                'distinct = hash of the decoded history.',
        'required_tags': ['split-depth-%d' % d for d in range(15)] + ['same-leaf', 'reinsert'],
        'min_cases': {'quick': 20000, 'thorough': 400000},
        'level_text': 'generated-history search against a std::map reference model plus a complete enumeration of the two/three-key histories over every first-differing nibble; held on everything generated, no claim beyond that',
        'level_note': 'trusts std::map as the reference, the key generator reaching every split depth (enforced: the check fails itself if a depth class is empty), ASan/UBSan for memory and shift errors',
        'technique': 'model-based property testing (rapidcheck tapes + small-scope enumeration + libFuzzer) against a std::map reference',
        'assumptions': ['single-threaded histories; insert only of absent keys, erase only of present keys (the code asserts both)',
                        'x86-64, clang 14, ASan+UBSan reports are turned into case failures'],
    },
}

NOT_APPLICABLE = {}
