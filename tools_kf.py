#!/usr/bin/env python3
"""tools_kf.py <id> <property> <status> <commit|-> <what_fails> [signature]  -- append to known_findings.json (editing time only)"""
import json, sys
k = json.load(open('known_findings.json'))
e = {'id': sys.argv[1], 'property': sys.argv[2], 'status': sys.argv[3], 'what_fails': sys.argv[5]}
if sys.argv[4] != '-': e['commit'] = sys.argv[4]
if len(sys.argv) > 6: e['signature'] = sys.argv[6]
k['findings'] = [f for f in k['findings'] if f['id'] != e['id']] + [e]
json.dump(k, open('known_findings.json', 'w'), indent=1)
