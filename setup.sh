#!/bin/sh
# offline setup: prebuild the rapidcheck front end (the only slow TU); harnesses are built by ./check
set -e
cd "$(dirname "$0")"
mkdir -p build evidence
python3 - <<'PY'
import sys, os
sys.argv = ['check']
sys.path.insert(0, 'engine')
import importlib.machinery, importlib.util
loader = importlib.machinery.SourceFileLoader('check', './check')
spec = importlib.util.spec_from_loader('check', loader)
m = importlib.util.module_from_spec(spec); loader.exec_module(m)
print(m.build_rc_driver())
PY
