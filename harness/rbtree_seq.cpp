// C06: frg::rbtree (comparator) and frg::rbtree_order (positional) against a reference sequence.
// Preconditions respected by the generator: insert only nodes that are in no tree, remove only
// contained nodes, insert(before, x) with `before` contained or null.
// The colour of a removed node's hook is not asserted (only its five link fields must be reset).
#include <vector>
#include <cstring>
#include <algorithm>
#include <cmath>
#include <frg/rbtree.hpp>
#include "../engine/verif.hpp"

const char *verif_harness = "rbtree_seq";
using namespace verif;

namespace {
// The constructor is user-provided and does not mention the hook: `new (p) Node` default-initialises it, in storage that
// holds 0xA5 bytes (a recycled pool slot). A hook that relies on zeroed storage starts with garbage links.
struct Node {
	int key, serial;
	bool in; int last_tree;
	frg::rbtree_hook hook;
	Node() { key = 0; serial = 0; in = false; last_tree = 0; }
};
// A comparator with state (it dereferences a pointer), handed to the tree as a temporary: the tree has to keep a copy.
int g_bias = 0;
struct KeyLess { const int *bias = &g_bias; bool operator()(const Node &a, const Node &b) const { return a.key + *bias < b.key + *bias; } };
// An aggregate comparator without member initialisers: a tree constructed without a comparator argument uses L() (flip == 0),
// wherever the tree object lives (c.make<T>() default-initialises it in storage that holds 0xA5 bytes).
struct FlipLess { unsigned flip; bool operator()(const Node &a, const Node &b) const { return flip ? b.key < a.key : a.key < b.key; } };
using FTree = frg::rbtree<Node, &Node::hook, FlipLess>;
__attribute__((noinline)) void scribble_stack() { volatile unsigned char buf[768]; for(size_t i = 0; i < sizeof buf; i++) buf[i] = 0xA5; }
using Tree = frg::rbtree<Node, &Node::hook, KeyLess>;
using OTree = frg::rbtree_order<Node, &Node::hook>;

// The colour of a node as the hook stores it today: 1 red, 2 black, 3 neither; 0 when the hook has no readable colour field (an
// implementation may keep the colour elsewhere, e.g. in a low bit of the parent link). Without it the colouring clauses are decided
// through their stated consequence, the height bound, and the fix-up classes are waived.
template<typename H> int colour_of(H &h) {
	if constexpr(requires { h.color; std::remove_cvref_t<decltype(h.color)>::red; std::remove_cvref_t<decltype(h.color)>::black; }) {
		using CT = std::remove_cvref_t<decltype(h.color)>;
		return h.color == CT::red ? 1 : h.color == CT::black ? 2 : 3;
	} else return 0;
}
// the link fields a hook has today, looked up only if they exist (a hook may compute its list neighbours instead of storing them)
template<typename H> bool raw_links_null(H &h) {
	bool ok = true;
	if constexpr(requires { h.parent; }) ok = ok && !h.parent;
	if constexpr(requires { h.left; }) ok = ok && !h.left;
	if constexpr(requires { h.right; }) ok = ok && !h.right;
	if constexpr(requires { h.predecessor; }) ok = ok && !h.predecessor;
	if constexpr(requires { h.successor; }) ok = ok && !h.successor;
	return ok;
}

template<typename T>
struct Checker {
	Ctx &c; T &tree; std::vector<Node *> &ref;
	std::vector<Node *> inorder;
	bool colours = true;
	int walk(Node *n, Node *parent, int depth, int &maxdepth) {   // returns black height
		if(!n) return 1;
		VCHECK(c, "C06", T::get_parent(n) == parent, "parent link of node #%d does not match the child link that leads to it", n->serial);
		int col = colour_of(n->hook);
		if(!col) { if(colours) c.tag("colour-not-readable"); colours = false; }
		if(colours) {
			VCHECK(c, "C06", col == 1 || col == 2, "node #%d in the tree has no colour", n->serial);
			if(col == 1) {
				Node *l = T::get_left(n), *r = T::get_right(n);
				VCHECK(c, "C06", !(l && colour_of(l->hook) == 1) && !(r && colour_of(r->hook) == 1), "red node #%d has a red child", n->serial);
			}
		}
		VCHECK(c, "C06", inorder.size() <= ref.size(), "the tree holds more nodes than the %zu contained (cycle?)", ref.size());
		if(depth > maxdepth) maxdepth = depth;
		int lh = walk(T::get_left(n), n, depth + 1, maxdepth);
		inorder.push_back(n);
		int rh = walk(T::get_right(n), n, depth + 1, maxdepth);
		if(colours) VCHECK(c, "C06", lh == rh, "black heights differ below node #%d (%d vs %d)", n->serial, lh, rh);
		return lh + (col == 2 ? 1 : 0);
	}
	void check(const char *after) {
		inorder.clear();
		Node *root = tree.get_root();
		VCHECK(c, "C06", (root == nullptr) == ref.empty(), "after %s: root is %s but %zu elements are contained", after, root ? "set" : "null", ref.size());
		int maxdepth = 0;
		if(root) {
			VCHECK(c, "C06", T::get_parent(root) == nullptr, "after %s: the root has a parent", after);
			if(colour_of(root->hook)) VCHECK(c, "C06", colour_of(root->hook) == 2, "after %s: the root is not black", after);
			walk(root, nullptr, 1, maxdepth);
		}
		VCHECK(c, "C06", inorder.size() == ref.size(), "after %s: in-order walk over left/right visits %zu nodes, %zu are contained", after, inorder.size(), ref.size());
		for(size_t i = 0; i < ref.size(); i++)
			VCHECK(c, "C06", inorder[i] == ref[i], "after %s: in-order position %zu holds node #%d (key %d), expected #%d (key %d)", after, i, inorder[i]->serial, inorder[i]->key, ref[i]->serial, ref[i]->key);
		// first() + successor
		size_t n = 0; Node *last = nullptr;
		for(Node *p = tree.first(); p; p = T::successor(p), n++) {
			VCHECK(c, "C06", n < ref.size(), "after %s: the successor walk visits more than %zu nodes", after, ref.size());
			VCHECK(c, "C06", p == ref[n], "after %s: successor walk position %zu holds node #%d, expected #%d", after, n, p->serial, ref[n]->serial);
			VCHECK(c, "C06", T::predecessor(p) == last, "after %s: predecessor(#%d) is not the node the successor walk came from", after, p->serial);
			if(T::successor(p)) VCHECK(c, "C06", T::predecessor(T::successor(p)) == p, "after %s: predecessor(successor(#%d)) != #%d", after, p->serial, p->serial);
			last = p;
		}
		VCHECK(c, "C06", n == ref.size(), "after %s: the successor walk visits %zu nodes, %zu are contained", after, n, ref.size());
		// predecessor walk from the last element
		n = ref.size();
		for(Node *p = last; p; p = T::predecessor(p)) { VCHECK(c, "C06", n > 0 && p == ref[n - 1], "after %s: predecessor walk differs at position %zu", after, n - 1); n--; }
		VCHECK(c, "C06", n == 0, "after %s: predecessor walk stops early", after);
		if(!ref.empty()) {
			double bound = 2.0 * std::log2((double)ref.size() + 1.0);
			VCHECK(c, "C06", (double)maxdepth <= bound + 1e-9, "after %s: height %d exceeds 2*log2(n+1) = %.2f for n = %zu", after, maxdepth, bound, ref.size());
		}
	}
	void removed(Node *x) {
		// through the tree's public accessors, and through whichever of the five link fields the hook still stores
		VCHECK(c, "C06", !T::get_parent(x) && !T::get_left(x) && !T::get_right(x) && !T::predecessor(x) && !T::successor(x) && raw_links_null(x->hook), "the hook of removed node #%d is not reset", x->serial);
	}
	// classify the removal fix-up that node x will need (from the state before the removal)
	void classify_remove(Node *x) {
		Node *l = T::get_left(x), *r = T::get_right(x);
		Node *victim = x;
		if(l && r) { c.tag("rm-two-children"); victim = T::predecessor(x); }
		Node *child = T::get_left(victim) ? T::get_left(victim) : T::get_right(victim);
		if(victim == tree.get_root() && victim == x) c.tag("rm-root");
		if(!colours) return;
		if(colour_of(victim->hook) == 1) { c.tag("rm-red-victim"); return; }
		if(child && colour_of(child->hook) == 1) { c.tag("rm-black-victim-red-child"); return; }
		Node *p = T::get_parent(victim);
		if(!p) return;
		bool left = T::get_left(p) == victim;
		Node *s = left ? T::get_right(p) : T::get_left(p);
		if(!s) return;
		auto red = [](Node *n) { return n && colour_of(n->hook) == 1; };
		const char *side = left ? "L" : "R";
		if(red(s)) { c.tagf("fixrm-%s-sibling-red", side); return; }
		Node *far = left ? T::get_right(s) : T::get_left(s), *near = left ? T::get_left(s) : T::get_right(s);
		if(!red(far) && !red(near)) c.tagf("fixrm-%s-nephews-black-parent-%s", side, red(p) ? "red" : "black");
		else if(red(far)) c.tagf("fixrm-%s-far-nephew-red", side);
		else c.tagf("fixrm-%s-near-nephew-red", side);
	}
	void classify_insert(Node *parent_of_new, bool as_left) {
		if(!parent_of_new) { c.tag("ins-root"); return; }
		if(!colours) return;
		if(colour_of(parent_of_new->hook) == 2) { c.tag("ins-parent-black"); return; }
		Node *g = T::get_parent(parent_of_new);
		if(!g) return;
		bool pl = T::get_left(g) == parent_of_new;
		Node *u = pl ? T::get_right(g) : T::get_left(g);
		const char *side = pl ? "L" : "R";
		if(u && colour_of(u->hook) == 1) c.tagf("fixins-%s-uncle-red", side);
		else if(pl == as_left) c.tagf("fixins-%s-outer", side);
		else c.tagf("fixins-%s-inner", side);
	}
};

constexpr int POOL = 320;

__attribute__((noinline)) Tree *make_keyed_tree(Ctx &c) { return c.make<Tree>(KeyLess{&g_bias}); }

void run_keyed(Ctx &c, bool scripted) {
	auto &t = c.t;
	Node *pool = (Node *)c.raw(sizeof(Node) * POOL);
	memset((void *)pool, 0xA5, sizeof(Node) * POOL);
	for(int i = 0; i < POOL; i++) { new (&pool[i]) Node; pool[i].serial = i; }
	Tree *tree = make_keyed_tree(c);
	scribble_stack();
	std::vector<Node *> ref;
	Checker<Tree> ck{c, *tree, ref, {}};
	bool rm_two = false, rm_big = false, reinserted = false;
	int next_free = 0;
	std::vector<Node *> free_list;
	auto do_insert = [&](int key) {
		Node *n;
		if(!free_list.empty() && t.pick(3) == 0) { size_t k = t.pick(free_list.size()); n = free_list[k]; free_list.erase(free_list.begin() + k); reinserted = true; }
		else if(next_free < POOL) n = &pool[next_free++];
		else if(!free_list.empty()) { n = free_list.back(); free_list.pop_back(); reinserted = true; }
		else return;
		n->key = key;
		c.op("insert(#%d key %d)", n->serial, key);
		// where will it go (for the fix-up classification)?
		{ Node *cur = tree->get_root(), *par = nullptr; bool left = false;
		  while(cur) { par = cur; if(key < cur->key) { left = true; cur = Tree::get_left(cur); } else { left = false; cur = Tree::get_right(cur); } }
		  ck.classify_insert(par, left); }
		tree->insert(n);
		n->in = true;
		auto pos = std::upper_bound(ref.begin(), ref.end(), n, [](const Node *a, const Node *b) { return a->key < b->key; });
		ref.insert(pos, n);
		ck.check("insert");
	};
	auto do_remove = [&](size_t idx) {
		Node *x = ref[idx];
		c.op("remove(#%d key %d)", x->serial, x->key);
		if(Tree::get_left(x) && Tree::get_right(x)) rm_two = true;
		if(ref.size() >= 4) rm_big = true;
		ck.classify_remove(x);
		tree->remove(x);
		x->in = false;
		ref.erase(ref.begin() + idx);
		ck.removed(x);
		free_list.push_back(x);
		ck.check("remove");
	};
	if(scripted) {
		unsigned n = t.pick(9);
		c.op("scripted keyed tree, %u inserts then removals", n);
		std::vector<int> keys;
		for(unsigned i = 0; i < n; i++) keys.push_back((int)t.pick(16));
		for(int k : keys) do_insert(k);
		while(!ref.empty() && !t.done()) do_remove(t.pick(ref.size()));
		c.tag("scripted");
	} else {
		unsigned universe = t.pick(3) == 0 ? 8 : (t.pick(2) ? 65536 : 64);
		unsigned nops = 1 + t.pick(60);
		if(t.pick(5) == 0) nops += t.pick(600);
		c.op("keyed tree, key universe %u", universe);
		if(t.pick(8) == 0) { unsigned bulk = 100 + t.pick(200); for(unsigned i = 0; i < bulk && !t.done(); i++) do_insert((int)t.pick(universe)); }   // large trees
		for(unsigned i = 0; i < nops && !t.done(); i++) {
			unsigned op = t.pick(8);
			if(op < 5 || ref.empty()) do_insert((int)t.pick(universe));
			else do_remove(t.pick(ref.size()));
		}
		if(ref.size() > 100) c.tag("size>100");
		// drain half of it
		unsigned drain = t.pick(ref.size() + 1);
		for(unsigned i = 0; i < drain && !ref.empty(); i++) do_remove(t.pick(ref.size()));
	}
	c.nontrivial = rm_two && rm_big;
	if(reinserted) c.tag("reinsert-removed-node");
	c.tag("keyed");
}

void run_order(Ctx &c) {
	auto &t = c.t;
	Node *pool = (Node *)c.raw(sizeof(Node) * POOL);
	memset((void *)pool, 0xA5, sizeof(Node) * POOL);
	for(int i = 0; i < POOL; i++) { new (&pool[i]) Node; pool[i].serial = i; }
	// One tree, or two trees of the same type that hand elements to each other (an element removed from one is inserted into the other:
	// run queues, LRU lists). Each element is in at most one tree at a time; whatever a tree remembers about an element that left it
	// must not matter.
	OTree *tree[2] = {c.make<OTree>(), c.make<OTree>()};
	std::vector<Node *> ref[2];
	Checker<OTree> ck[2] = {{c, *tree[0], ref[0], {}}, {c, *tree[1], ref[1], {}}};
	bool rm_two = false, rm_big = false;
	int next_free = 0; std::vector<Node *> free_list;
	uint32_t r0 = t.next();
	unsigned nops = 1 + r0 % 50; bool two = (r0 / 50) % 4 == 3;
	if(t.pick(5) == 0) nops += t.pick(400);
	c.op(two ? "two order trees" : "order tree");
	if(two) { c.tag("two-order-trees"); nops += 20; }
	for(unsigned i = 0; i < nops && !t.done(); i++) {
		uint32_t ro = t.next(); unsigned op = ro % 8; int w = two ? (int)((ro / 8) % 2) : 0;
		if(op < 5 || ref[w].empty()) {
			Node *n;
			if(!free_list.empty() && (t.pick(3) == 0 || (two && t.pick(2)))) { size_t at = two ? t.pick(free_list.size()) : free_list.size() - 1; n = free_list[at]; free_list.erase(free_list.begin() + at); c.tag("reinsert-removed-node"); if(two && n->last_tree != w) c.tag("element-moved-to-the-other-tree"); }
			else if(next_free < POOL) n = &pool[next_free++]; else continue;
			size_t pos = t.pick(4) == 0 ? ref[w].size() : t.pick(ref[w].size() + 1);
			Node *before = pos == ref[w].size() ? nullptr : ref[w][pos];
			c.op("%sinsert(before %s%d, #%d)", two ? (w ? "B." : "A.") : "", before ? "#" : "end ", before ? before->serial : 0, n->serial);
			tree[w]->insert(before, n); n->last_tree = w;
			ref[w].insert(ref[w].begin() + pos, n);
			if(before) c.tag("order-insert-before"); else c.tag("order-insert-last");
			ck[w].check("insert(before, x)");
			if(two) ck[1 - w].check("insert into the other tree");
		} else {
			size_t idx = t.pick(ref[w].size()); Node *x = ref[w][idx];
			c.op("%sremove(#%d)", two ? (w ? "B." : "A.") : "", x->serial);
			if(OTree::get_left(x) && OTree::get_right(x)) rm_two = true;
			if(ref[w].size() >= 4) rm_big = true;
			ck[w].classify_remove(x);
			tree[w]->remove(x);
			ref[w].erase(ref[w].begin() + idx);
			ck[w].removed(x);
			free_list.push_back(x);
			ck[w].check("remove");
			if(two) ck[1 - w].check("remove from the other tree");
		}
	}
	c.nontrivial = rm_two && rm_big;
	c.tag("order");
}
} // namespace
// a short history on a default-constructed tree with the aggregate comparator: the walk must be in the order of FlipLess{} (ascending keys,
// equal keys in insertion order)
void run_default_comparator(Ctx &c) {
	auto &t = c.t;
	constexpr int N = 24;
	Node *pool = (Node *)c.raw(sizeof(Node) * N);
	memset((void *)pool, 0xA5, sizeof(Node) * N);
	for(int i = 0; i < N; i++) { new (&pool[i]) Node; pool[i].serial = i; }
	FTree *tree = c.make<FTree>();
	c.op("default-constructed tree with an aggregate comparator (no member initialisers)");
	c.tag("default-constructed-comparator");
	std::vector<Node *> ref;
	unsigned n = 2 + t.pick(N - 2);
	for(unsigned i = 0; i < n; i++) { pool[i].key = (int)t.pick(8); c.op("insert(#%u key %d)", i, pool[i].key); tree->insert(&pool[i]);
		auto pos = std::upper_bound(ref.begin(), ref.end(), &pool[i], [](const Node *a, const Node *b) { return a->key < b->key; }); ref.insert(pos, &pool[i]); }
	size_t k = 0;
	for(Node *p = tree->first(); p; p = FTree::successor(p), k++) {
		VCHECK(c, "C06", k < ref.size(), "the walk yields more than %zu nodes", ref.size());
		VCHECK(c, "C06", p == ref[k], "position %zu of the walk holds key %d (#%d); the order of the value-initialised comparator wants key %d (#%d)", k, p->key, p->serial, ref[k]->key, ref[k]->serial);
	}
	VCHECK(c, "C06", k == ref.size(), "the walk yields %zu of %zu nodes", k, ref.size());
	while(!ref.empty()) { tree->remove(ref.back()); ref.pop_back(); }
	c.check_san("C06");
	c.nontrivial = n >= 4;
}

void verif_case(Ctx &c) {
	unsigned mode = c.t.pick(4);
	if(mode == 3 && c.t.pick(4) == 0) { run_default_comparator(c); return; }
	if(mode == 0) run_keyed(c, true);
	else if(mode == 3) run_order(c);
	else run_keyed(c, false);
}

// every insertion order of n distinct keys (and every key sequence over {0,1,2} with
// duplicates) followed by every removal order
void verif_enum(Enum &e) {
	unsigned maxn = e.tier == "thorough" ? 6 : 5;
	uint64_t n1 = 0, n2 = 0;
	auto removal_orders = [&](std::vector<uint32_t> prefix, unsigned n, uint64_t &count) -> bool {
		std::vector<uint32_t> lehmer(n, 0);
		while(true) {
			std::vector<uint32_t> tape = prefix;
			tape.insert(tape.end(), lehmer.begin(), lehmer.end());
			if(!e.run(tape)) return false;
			count++;
			// next Lehmer code: digit i ranges over 0..n-1-i
			int i = (int)n - 1;
			while(i >= 0) { if(lehmer[i] + 1 < n - i) { lehmer[i]++; break; } lehmer[i] = 0; i--; }
			if(i < 0) break;
		}
		return true;
	};
	for(unsigned n = 1; n <= maxn; n++) {
		std::vector<uint32_t> perm(n); for(unsigned i = 0; i < n; i++) perm[i] = i;
		do {
			std::vector<uint32_t> prefix{0, n};
			for(unsigned i = 0; i < n; i++) { prefix.push_back(perm[i]); }
			// do_insert consumes no extra picks while the free list is empty
			if(!removal_orders(prefix, n, n1)) return;
		} while(std::next_permutation(perm.begin(), perm.end()));
	}
	e.scope("all insertion orders of n <= maxn distinct keys x all removal orders", n1);
	unsigned maxd = e.tier == "thorough" ? 6 : 5;
	for(unsigned n = 2; n <= maxd; n++) {
		uint32_t total = 1; for(unsigned i = 0; i < n; i++) total *= 3;
		for(uint32_t code = 0; code < total; code++) {
			std::vector<uint32_t> prefix{0, n}; uint32_t x = code; bool dup = false; int seen[3] = {0, 0, 0};
			for(unsigned i = 0; i < n; i++) { prefix.push_back(x % 3); if(seen[x % 3]++) dup = true; x /= 3; }
			if(!dup) continue;
			if(!removal_orders(prefix, n, n2)) return;
		}
	}
	e.scope("all key sequences over {0,1,2} with duplicates, length <= maxd, x all removal orders", n2);
}
