// C13 (sequence containers equal their abstract sequence) and the container part of C16
// (exactly-once destruction / deallocation).
// Subjects: frg::vector, frg::small_vector<T,4>/<T,1>, frg::dyn_array, frg::stack, frg::list,
//           frg::intrusive_list; T = int and T = verif::Tracked; allocator verif::track_alloc.
//
// Preconditions respected by the generator:
//   vector::pop / stack::pop / small_vector::pop_back / list::pop_front / front / back / top
//     only on non-empty containers (pop_back/front/back assert it, the others simply underflow)
//   index < size; intrusive_list: push/insert only nodes that are in no list, erase/iterator_to
//     only nodes of that list, splice only at end() and never a list into itself
//   after a move the source is only required to be a valid container: the model is
//     re-synchronised from what it reports (its contents must still be readable)
#include <vector>
#include <deque>
#include <algorithm>
#include <type_traits>
#include <frg/vector.hpp>
#include <frg/small_vector.hpp>
#include <frg/dyn_array.hpp>
#include <frg/stack.hpp>
#include <frg/list.hpp>
#include "../engine/verif.hpp"
#include "../engine/track.hpp"

const char *verif_harness = "seqcont_seq";
using namespace verif;
// the hook's public "am I linked" flag, while the hook has one (a template so that the member is looked up only if it exists)
// the hook's public back link, while the hook has one (the backward walk is skipped otherwise: the list offers no other way to go backwards)
template<typename N> bool has_prev_link() { return requires(N *p) { p->hook.previous; }; }
template<typename N> N *prev_of(N *p) { if constexpr(requires { p->hook.previous; }) return (N *)p->hook.previous; else return nullptr; }
template<typename N> bool in_list_or(N &n, bool otherwise) { if constexpr(requires { n.hook.in_list; }) return n.hook.in_list; else return otherwise; }

void verif_case_reset() { reg().reset(); }

namespace {

// Trivially destructible, but with an observable copy/move: every object points at itself and is
// read through that pointer, so an element that was relocated bytewise (without its move
// constructor) is read through a pointer into its old storage.
struct Anchored {
	int v; const Anchored *self;
	Anchored() : v(0), self(this) {}
	Anchored(int x) : v(x), self(this) {}
	Anchored(const Anchored &o) : v(o.get()), self(this) {}
	Anchored(Anchored &&o) noexcept : v(o.get()), self(this) {}
	Anchored &operator=(const Anchored &o) { v = o.get(); return *this; }
	Anchored &operator=(Anchored &&o) noexcept { v = o.get(); return *this; }
	int get() const { return self->v; }
	bool operator==(const Anchored &o) const { return get() == o.get(); }
	bool operator!=(const Anchored &o) const { return get() != o.get(); }
};
static_assert(std::is_trivially_destructible_v<Anchored> && !std::is_trivially_copyable_v<Anchored>);
// Trivially copyable, but equality is not bytewise: two values are equal when they agree modulo 16.
struct Fuzzy {
	int v;
	Fuzzy() : v(0) {}
	Fuzzy(int x) : v(x) {}
	bool operator==(const Fuzzy &o) const { return (v & 15) == (o.v & 15); }
	bool operator!=(const Fuzzy &o) const { return !(*this == o); }
};
static_assert(std::is_trivially_copyable_v<Fuzzy>);
// Lifetime-registering element with an initializer_list constructor: a container that builds its elements as T{args...}
// instead of T(args...) (what emplace of the reference containers does) picks this constructor and stores another value.
struct Braced : Tracked {
	Braced() = default;
	Braced(int x) : Tracked(x) {}
	Braced(std::initializer_list<int> il) : Tracked(il.size() ? (*il.begin() ^ 0x40000000) : -7) {}
};
using verif::payload;
int payload(const Fuzzy &f) { return f.v; }
template<typename T> bool elem_eq(int a, int b) { return T(a) == T(b); }
int payload(const Anchored &a) { return a.get(); }
// payload left behind in an element that was moved from (Tracked marks it, the others keep their value)
template<typename T> int moved_payload(int x) { if constexpr(std::is_base_of_v<Tracked, T>) return -1; else return x; }
template<typename T> struct Name;
template<> struct Name<Anchored> { static constexpr const char *n = "Anchored"; };
template<> struct Name<Fuzzy> { static constexpr const char *n = "Fuzzy"; };
template<> struct Name<Braced> { static constexpr const char *n = "Braced"; };
template<> struct Name<int> { static constexpr const char *n = "int"; };
template<> struct Name<Tracked> { static constexpr const char *n = "Tracked"; };

struct Flags {
	bool crossed_up = false, shrank_after = false, pair_op_nonempty = false, released_before_end = false;
};

// ---- common comparison of a random-access container with the reference -------------------
template<typename C>
void compare_ra(Ctx &c, const char *what, C &v, const std::vector<int> &ref, int slot) {
	const C &cv = v;
	VCHECK(c, "C13", v.size() == ref.size(), "%s[%d]: size() is %zu, reference has %zu", what, slot, (size_t)v.size(), ref.size());
	VCHECK(c, "C13", cv.size() == ref.size(), "%s[%d]: const size() differs", what, slot);
	for(size_t i = 0; i < ref.size(); i++) {
		VCHECK(c, "C13", payload(v[i]) == ref[i], "%s[%d]: element %zu is %d, reference has %d", what, slot, i, payload(v[i]), ref[i]);
		VCHECK(c, "C13", &cv[i] == &v[i], "%s[%d]: const and non-const index disagree at %zu", what, slot, i);
	}
	size_t n = 0;
	for(auto it = v.begin(); it != v.end(); ++it, ++n) {
		VCHECK(c, "C13", n < ref.size(), "%s[%d]: iteration yields more than %zu elements", what, slot, ref.size());
		VCHECK(c, "C13", payload(*it) == ref[n], "%s[%d]: iteration position %zu yields %d, reference has %d", what, slot, n, payload(*it), ref[n]);
	}
	VCHECK(c, "C13", n == ref.size(), "%s[%d]: iteration yields %zu elements, reference has %zu", what, slot, n, ref.size());
	VCHECK(c, "C13", cv.end() - cv.begin() == (ptrdiff_t)ref.size(), "%s[%d]: const begin/end span differs", what, slot);
	VCHECK(c, "C13", v.data() == v.begin(), "%s[%d]: data() != begin()", what, slot);
}

template<typename C>
void resync(C &v, std::vector<int> &ref) {
	ref.clear();
	for(size_t i = 0; i < v.size(); i++) ref.push_back(payload(v[i]));
}

// ---- vector -------------------------------------------------------------------------------
template<typename T>
void run_vector(Ctx &c) {
	using V = frg::vector<T, track_alloc>;
	auto &t = c.t;
	constexpr int S = 3;
	V *slot[S] = {nullptr, nullptr, nullptr};
	std::vector<int> ref[S];
	Flags f;
	size_t peak[S] = {0, 0, 0};
	slot[0] = c.make<V>(track_alloc{7});
	c.op("vector<%s>", Name<T>::n);
	int nextv = 1;

	auto check = [&]() {
		for(int s = 0; s < S; s++) if(slot[s]) {
			compare_ra(c, "vector", *slot[s], ref[s], s);
			VCHECK(c, "C13", slot[s]->empty() == ref[s].empty(), "vector[%d]: empty() is %d with %zu elements", s, (int)slot[s]->empty(), ref[s].size());
			if(!ref[s].empty()) {
				VCHECK(c, "C13", payload(slot[s]->front()) == ref[s].front(), "vector[%d]: front() is %d, reference %d", s, payload(slot[s]->front()), ref[s].front());
				VCHECK(c, "C13", payload(slot[s]->back()) == ref[s].back(), "vector[%d]: back() is %d, reference %d", s, payload(slot[s]->back()), ref[s].back());
				const V &cv = *slot[s];
				VCHECK(c, "C13", &cv.front() == &(*slot[s])[0] && &cv.back() == &(*slot[s])[ref[s].size() - 1], "vector[%d]: const front/back address", s);
			}
			if(ref[s].size() > peak[s]) { if(peak[s] && ref[s].size() > peak[s]) {} peak[s] = ref[s].size(); }
		}
		c.check_san("C13");
		VTRACK_POLL(c);
	};
	auto thresholds = [&](size_t before, size_t after) {
		// growth thresholds of frg::vector: capacity doubles from (needed * 2)
		if(after > before) { for(size_t th : {size_t(0), size_t(2), size_t(4), size_t(8), size_t(16), size_t(32), size_t(64)}) if(before <= th && after > th) { f.crossed_up = true; c.tagf("grow-past-%zu", th); } }
		if(after < before && f.crossed_up) f.shrank_after = true;
	};

	unsigned nops = 1 + t.pick(48);
	if(t.pick(8) == 0) nops += t.pick(150);
	for(unsigned i = 0; i < nops && !t.done(); i++) {
		int s = t.pick(S);
		if(!slot[s]) s = 0;
		V &v = *slot[s];
		size_t before = ref[s].size();
		unsigned op = t.pick(26);
		switch(op) {
		case 0: { int x = nextv++; T e(x); c.op("v%d.push(const& %d)", s, x); T &r = v.push(e); ref[s].push_back(x); VCHECK(c, "C13", &r == &v[v.size() - 1], "push returned a reference to another element"); break; }
		case 1: { int x = nextv++; T e(x); c.op("v%d.push(&& %d)", s, x); v.push(std::move(e)); ref[s].push_back(x); break; }
		case 2: { int x = nextv++; T e(x); c.op("v%d.push_back(%d)", s, x); if(t.flip()) v.push_back(e); else v.push_back(std::move(e)); ref[s].push_back(x); break; }
		case 3: case 4: { int x = nextv++; c.op("v%d.emplace_back(%d)", s, x); T &r = v.emplace_back(x); ref[s].push_back(x); VCHECK(c, "C13", payload(r) == x, "emplace_back returned a reference to %d", payload(r)); break; }
		case 5: case 6: if(!ref[s].empty()) { c.op("v%d.pop()", s); T e = v.pop(); VCHECK(c, "C13", payload(e) == ref[s].back(), "pop() returned %d, reference back is %d", payload(e), ref[s].back()); ref[s].pop_back(); f.released_before_end = true; } break;
		case 7: { size_t n = t.pick(4) ? t.pick(12) : t.pick(70); c.op("v%d.resize(%zu)", s, n); v.resize(n); if(n < ref[s].size()) f.released_before_end = true; ref[s].resize(n, 0); break; }
		case 8: { size_t n = t.pick(4) ? t.pick(12) : t.pick(70); int x = nextv++; const T e(x); c.op("v%d.resize(%zu, %d)", s, n, x); v.resize(n, e); if(n < ref[s].size()) f.released_before_end = true; ref[s].resize(n, x); break; }
		case 9: c.op("v%d.clear()", s); v.clear(); if(!ref[s].empty()) f.released_before_end = true; ref[s].clear(); break;
		case 10: { uint32_t rd = t.next(); int d = rd % S; bool own_pool = (rd / S) % 4 == 3; if(d == s) break; if(slot[d]) { c.op("destroy v%d", d); if(!ref[d].empty()) f.released_before_end = true; c.destroy(slot[d]); slot[d] = nullptr; ref[d].clear(); }
			if(own_pool) {
				// a vector over an allocator handle of its own pool: swaps and assignments between vectors of different pools have to take the
				// allocator along with the storage (a block goes back to the pool it came from - judged by the registry under C16)
				c.op("v%d = vector(allocator of pool %d) filled with the elements of v%d", d, 20 + d, s); slot[d] = c.make<V>(track_alloc{20 + d});
				for(int x : ref[s]) slot[d]->push(T(x));
				ref[d] = ref[s]; c.tag("vector-own-pool"); break;
			}
			c.op("v%d = copy-construct(v%d)", d, s); slot[d] = c.make<V>(v); ref[d] = ref[s]; if(!ref[s].empty()) f.pair_op_nonempty = true; break; }
		case 11: { int d = t.pick(S); if(d == s) break; if(slot[d]) { c.op("destroy v%d", d); c.destroy(slot[d]); slot[d] = nullptr; ref[d].clear(); }
			c.op("v%d = move-construct(v%d)", d, s); std::vector<int> old = ref[s]; slot[d] = c.make<V>(std::move(v)); ref[d] = old; resync(v, ref[s]); break; }
		case 12: { int d = t.pick(S); if(!slot[d]) break; c.op("v%d = v%d (copy)", d, s); if(!ref[d].empty()) f.released_before_end = true; if(!ref[d].empty() && !ref[s].empty()) f.pair_op_nonempty = true;
			*slot[d] = v; ref[d] = ref[s]; break; }
		case 13: { int d = t.pick(S); if(!slot[d] || d == s) break; c.op("v%d = move(v%d)", d, s); if(!ref[d].empty()) f.released_before_end = true; if(!ref[d].empty() && !ref[s].empty()) f.pair_op_nonempty = true;
			std::vector<int> old = ref[s]; *slot[d] = std::move(v); ref[d] = old; resync(v, ref[s]); break; }
		case 14: { int d = t.pick(S); if(!slot[d]) break; c.op("swap(v%d, v%d)", s, d); if(!ref[d].empty() && !ref[s].empty() && d != s) f.pair_op_nonempty = true; swap(v, *slot[d]); std::swap(ref[s], ref[d]); break; }
		case 15: { int d = t.pick(S); if(!slot[d]) break; c.op("v%d == v%d", s, d); bool eq = v == *slot[d], ne = v != *slot[d];
			bool exp = ref[s].size() == ref[d].size(); for(size_t k = 0; exp && k < ref[s].size(); k++) exp = elem_eq<T>(ref[s][k], ref[d][k]);     // element-wise, with the element type's own ==
			if(exp && ref[s] != ref[d]) c.tag("equal-but-not-bytewise");
			VCHECK(c, "C13", eq == exp && ne == !eq, "operator== gives %d and != gives %d, element-wise equality is %d", (int)eq, (int)ne, (int)exp); break; }
		case 17: { int d = t.pick(S); if(!slot[d] || d == s || ref[s].empty()) break;      // near-copies: equal under the element's ==, or differing in exactly one element
			size_t k = t.pick(ref[s].size()); int delta = t.flip() ? 16 : 1 + (int)t.pick(15);
			c.op("v%d = v%d (copy); v%d[%zu] += %d; v%d == v%d", d, s, d, k, delta, s, d);
			if(!ref[d].empty()) f.released_before_end = true; f.pair_op_nonempty = true;
			*slot[d] = v; ref[d] = ref[s]; (*slot[d])[k] = T(ref[d][k] + delta); ref[d][k] += delta;
			bool eq = v == *slot[d], ne = v != *slot[d];
			bool exp = true; for(size_t j = 0; exp && j < ref[s].size(); j++) exp = elem_eq<T>(ref[s][j], ref[d][j]);
			if(exp) c.tag("equal-but-not-bytewise"); else c.tag("differ-in-one-element");
			VCHECK(c, "C13", eq == exp && ne == !eq, "operator== gives %d and != gives %d, element-wise equality is %d", (int)eq, (int)ne, (int)exp); break; }
		case 16: if(!ref[s].empty()) { size_t k = t.pick(ref[s].size()); int x = t.flip() ? ref[s][k] + 16 : nextv++; c.op("v%d[%zu] = %d", s, k, x); v[k] = T(x); ref[s][k] = x; } break;
		case 24: { c.op("v%d.detach() (the caller takes over the storage)", s); c.tag("vector-detach");
			T *stor = v.data(); size_t n = v.size();
			v.detach();
			VCHECK(c, "C13", v.size() == 0 && v.empty(), "after detach() size() is %zu", v.size());
			for(size_t i = 0; i < n; i++) { VCHECK(c, "C13", payload(stor[i]) == ref[s][i], "detach() changed element %zu of the storage it handed over", i); stor[i].~T(); }
			if(stor) { auto &own = reg().blk_owner; auto it = own.find(stor); track_alloc a{it == own.end() ? 7 : it->second}; a.free(stor); }       // (slot 0's pool; blocks of other pools are reported by the registry only under C16)
			ref[s].clear(); f.released_before_end = true; break; }
		// arguments that refer to an element of the container itself (std::vector supports all of them, also when the call reallocates)
		case 19: case 20: case 21: case 22: if(!ref[s].empty()) { size_t k = t.pick(ref[s].size()); int x = ref[s][k]; const void *before_data = v.data();
			if(op == 19) { c.op("v%d.push(v%d[%zu])", s, s, k); v.push(v[k]); ref[s].push_back(x); }
			else if(op == 20) { c.op("v%d.emplace_back(v%d[%zu])", s, s, k); v.emplace_back(v[k]); ref[s].push_back(x); }
			else if(op == 21) { c.op("v%d.push(move(v%d[%zu]))", s, s, k); v.push(std::move(v[k])); ref[s].push_back(x); ref[s][k] = moved_payload<T>(x); }
			else { size_t n = ref[s].size() + 1 + t.pick(6); c.op("v%d.resize(%zu, v%d[%zu])", s, n, s, k); v.resize(n, v[k]); ref[s].resize(n, x); }
			c.tag(v.data() != before_data ? "alias-arg-realloc" : "alias-arg-in-place"); } break;
		case 23: { size_t n = ref[s].size() + t.pick(5); int x = nextv++; c.op("v%d.resize(%zu, T(%d)) (rvalue)", s, n, x); if(n >= ref[s].size() + 2) c.tag("resize-rvalue-multi"); v.resize(n, T(x)); ref[s].resize(n, x); break; }
		default: { unsigned k = 1 + t.pick(20); c.op("v%d push x%u", s, k); for(unsigned j = 0; j < k; j++) { int x = nextv++; v.emplace_back(x); ref[s].push_back(x); } break; }
		}
		thresholds(before, ref[s].size());
		check();
	}
	c.op("destroy all");
	for(int s = 0; s < S; s++) if(slot[s]) { c.destroy(slot[s]); slot[s] = nullptr; }
	VTRACK_END(c);
	if(c.focus() == "C16") c.nontrivial = f.released_before_end;
	else c.nontrivial = (f.crossed_up && f.shrank_after) || f.pair_op_nonempty;
	if(f.crossed_up && f.shrank_after) c.tag("grew-then-shrank");
	if(f.pair_op_nonempty) c.tag("pair-op-nonempty");
}

// ---- small_vector -------------------------------------------------------------------------
template<typename T, size_t N>
void run_small_vector(Ctx &c) {
	using V = frg::small_vector<T, N, track_alloc>;
	auto &t = c.t;
	constexpr int S = 3;
	V *slot[S] = {nullptr, nullptr, nullptr};
	std::vector<int> ref[S];
	Flags f;
	slot[0] = c.make<V>(track_alloc{});
	c.op("small_vector<%s,%zu>", Name<T>::n, N);
	int nextv = 1;
	bool was_heap[S] = {false, false, false};

	auto check = [&]() {
		for(int s = 0; s < S; s++) if(slot[s]) {
			compare_ra(c, "small_vector", *slot[s], ref[s], s);
			VCHECK(c, "C13", slot[s]->empty() == ref[s].empty(), "small_vector[%d]: empty() is %d with %zu elements", s, (int)slot[s]->empty(), ref[s].size());
			if(!ref[s].empty()) {
				VCHECK(c, "C13", payload(slot[s]->front()) == ref[s].front(), "small_vector[%d]: front() is %d, reference %d", s, payload(slot[s]->front()), ref[s].front());
				VCHECK(c, "C13", payload(slot[s]->back()) == ref[s].back(), "small_vector[%d]: back() is %d, reference %d", s, payload(slot[s]->back()), ref[s].back());
				const V &cv = *slot[s];
				VCHECK(c, "C13", &cv.front() == &(*slot[s])[0] && &cv.back() == &(*slot[s])[ref[s].size() - 1], "small_vector[%d]: const front/back address", s);
			}
			bool inl = (char *)slot[s]->data() >= (char *)slot[s] && (char *)slot[s]->data() < (char *)(slot[s] + 1);
			if(!inl) was_heap[s] = true;
			// (how many elements an implementation keeps inline beyond N is its business; what is inline must lie inside the object)
			if(inl && (char *)(slot[s]->data() + ref[s].size()) > (char *)(slot[s] + 1)) c.fail("C13", "small_vector[%d]: %zu elements start inside the object but do not fit into it", s, ref[s].size());
		}
		c.check_san("C13");
		VTRACK_POLL(c);
	};
	auto thresholds = [&](size_t before, size_t after) {
		if(after > before) { for(size_t th : {size_t(0), N, 2 * (N + 1), 4 * (N + 1) + 2, size_t(32)}) if(before <= th && after > th) { f.crossed_up = true; c.tagf("sv%zu-grow-past-%zu", N, th); } }
		if(after < before && f.crossed_up) f.shrank_after = true;
	};
	unsigned nops = 1 + t.pick(48);
	if(t.pick(8) == 0) nops += t.pick(150);
	for(unsigned i = 0; i < nops && !t.done(); i++) {
		int s = t.pick(S);
		if(!slot[s]) s = 0;
		V &v = *slot[s];
		size_t before = ref[s].size();
		unsigned op = t.pick(20);
		switch(op) {
		case 0: { int x = nextv++; T e(x); c.op("s%d.push_back(const& %d)", s, x); T &r = v.push_back(e); ref[s].push_back(x); VCHECK(c, "C13", &r == &v[v.size() - 1], "push_back returned a reference to another element"); break; }
		case 1: { int x = nextv++; T e(x); c.op("s%d.push_back(&& %d)", s, x); v.push_back(std::move(e)); ref[s].push_back(x); break; }
		case 2: case 3: { int x = nextv++; c.op("s%d.emplace_back(%d)", s, x); T &r = v.emplace_back(x); ref[s].push_back(x); VCHECK(c, "C13", payload(r) == x, "emplace_back returned a reference to %d", payload(r)); break; }
		case 4: case 5: if(!ref[s].empty()) { c.op("s%d.pop_back()", s); v.pop_back(); ref[s].pop_back(); f.released_before_end = true; } break;
		case 6: { size_t n = t.pick(4) ? t.pick(2 * N + 4) : t.pick(40); c.op("s%d.resize(%zu)", s, n); v.resize(n); if(n < ref[s].size()) f.released_before_end = true; ref[s].resize(n, 0); break; }
		case 7: { size_t n = t.pick(4) ? t.pick(2 * N + 4) : t.pick(40); int x = nextv++; const T e(x); c.op("s%d.resize(%zu, %d)", s, n, x); v.resize(n, e); if(n < ref[s].size()) f.released_before_end = true; ref[s].resize(n, x); break; }
		case 8: { int d = t.pick(S); if(d == s) break; if(slot[d]) { c.op("destroy s%d", d); if(!ref[d].empty()) f.released_before_end = true; c.destroy(slot[d]); slot[d] = nullptr; ref[d].clear(); }
			c.op("s%d = copy-construct(s%d)", d, s); slot[d] = c.make<V>(v); ref[d] = ref[s]; if(!ref[s].empty()) f.pair_op_nonempty = true; break; }
		case 9: { int d = t.pick(S); if(d == s) break; if(slot[d]) { c.op("destroy s%d", d); c.destroy(slot[d]); slot[d] = nullptr; ref[d].clear(); }
			c.op("s%d = move-construct(s%d)", d, s); std::vector<int> old = ref[s]; if(!old.empty()) { f.pair_op_nonempty = true; c.tag(old.size() <= N ? "sv-move-inline" : "sv-move-heap"); }
			slot[d] = c.make<V>(std::move(v)); ref[d] = old; resync(v, ref[s]); break; }
		case 10: { int d = t.pick(S); if(!slot[d] || d == s) break; c.op("swap(s%d, s%d)", s, d);
			if(!ref[d].empty() && !ref[s].empty()) { f.pair_op_nonempty = true; c.tag((ref[s].size() <= N) == (ref[d].size() <= N) ? (ref[s].size() <= N ? "sv-swap-inline-inline" : "sv-swap-heap-heap") : "sv-swap-inline-heap"); }
			swap(v, *slot[d]); std::swap(ref[s], ref[d]); break; }
		case 11: if(!ref[s].empty()) { size_t k = t.pick(ref[s].size()); int x = nextv++; c.op("s%d[%zu] = %d", s, k, x); v[k] = T(x); ref[s][k] = x; } break;
		case 13: case 14: case 15: case 16: if(!ref[s].empty()) { size_t k = t.pick(ref[s].size()); int x = ref[s][k]; const void *before_data = v.data();
			if(op == 13) { c.op("s%d.push_back(s%d[%zu])", s, s, k); v.push_back(v[k]); ref[s].push_back(x); }
			else if(op == 14) { c.op("s%d.emplace_back(s%d[%zu])", s, s, k); v.emplace_back(v[k]); ref[s].push_back(x); }
			else if(op == 15) { c.op("s%d.push_back(move(s%d[%zu]))", s, s, k); v.push_back(std::move(v[k])); ref[s].push_back(x); ref[s][k] = moved_payload<T>(x); }
			else { size_t n = ref[s].size() + 1 + t.pick(6); c.op("s%d.resize(%zu, s%d[%zu])", s, n, s, k); v.resize(n, v[k]); ref[s].resize(n, x); }
			c.tag(v.data() != before_data ? "alias-arg-realloc" : "alias-arg-in-place"); } break;
		case 17: { size_t n = ref[s].size() + t.pick(5); int x = nextv++; c.op("s%d.resize(%zu, T(%d)) (rvalue)", s, n, x); if(n >= ref[s].size() + 2) c.tag("resize-rvalue-multi"); v.resize(n, T(x)); ref[s].resize(n, x); break; }
		case 18: { c.op("swap(s%d, s%d) (self)", s, s); V &alias = v; swap(v, alias); c.tag(ref[s].empty() ? "sv-self-swap-empty" : ref[s].size() <= N ? "sv-self-swap-inline" : "sv-self-swap-heap"); break; }
		default: { unsigned k = 1 + t.pick(2 * N + 3); c.op("s%d push x%u", s, k); for(unsigned j = 0; j < k; j++) { int x = nextv++; v.emplace_back(x); ref[s].push_back(x); } break; }
		}
		thresholds(before, ref[s].size());
		check();
	}
	c.op("destroy all");
	for(int s = 0; s < S; s++) if(slot[s]) { c.destroy(slot[s]); slot[s] = nullptr; }
	VTRACK_END(c);
	if(c.focus() == "C16") c.nontrivial = f.released_before_end;
	else c.nontrivial = (f.crossed_up && f.shrank_after) || f.pair_op_nonempty;
	if(f.crossed_up && f.shrank_after) c.tag("grew-then-shrank");
	if(f.pair_op_nonempty) c.tag("pair-op-nonempty");
}

// ---- dyn_array ----------------------------------------------------------------------------
template<typename T>
void run_dyn_array(Ctx &c) {
	using V = frg::dyn_array<T, track_alloc>;
	auto &t = c.t;
	constexpr int S = 3;
	V *slot[S] = {nullptr, nullptr, nullptr};
	std::vector<int> ref[S];
	Flags f;
	c.op("dyn_array<%s>", Name<T>::n);
	int nextv = 1;
	auto check = [&]() {
		for(int s = 0; s < S; s++) if(slot[s]) {
			compare_ra(c, "dyn_array", *slot[s], ref[s], s);
			VCHECK(c, "C13", slot[s]->empty() == ref[s].empty(), "dyn_array[%d]: empty() is %d with %zu elements", s, (int)slot[s]->empty(), ref[s].size());
		}
		c.check_san("C13");
		VTRACK_POLL(c);
	};
	unsigned nops = 1 + t.pick(24);
	for(unsigned i = 0; i < nops; i++) {
		int s = t.pick(S);
		unsigned op = t.pick(9);
		if(!slot[s]) op = op % 3;
		switch(op) {
		case 0: case 1: { if(slot[s]) { if(!ref[s].empty()) f.released_before_end = true; c.op("destroy d%d", s); c.destroy(slot[s]); slot[s] = nullptr; }
			size_t n = t.pick(3) ? t.pick(9) : t.pick(40); c.op("d%d = dyn_array(%zu)", s, n); slot[s] = c.make<V>(n, track_alloc{s}); ref[s].assign(n, 0); if(n) c.tag("dyn-nonempty"); else c.tag("dyn-size0"); break; }
		case 2: { if(slot[s]) { c.op("destroy d%d", s); c.destroy(slot[s]); slot[s] = nullptr; } c.op("d%d = dyn_array()", s); slot[s] = c.make<V>(); ref[s].clear(); c.tag("dyn-default"); break; }
		case 3: { int d = t.pick(S); if(d == s) break; if(slot[d]) { if(!ref[d].empty()) f.released_before_end = true; c.destroy(slot[d]); slot[d] = nullptr; } c.op("d%d = copy-construct(d%d)", d, s); slot[d] = c.make<V>(*slot[s]); ref[d] = ref[s]; if(!ref[s].empty()) f.pair_op_nonempty = true; break; }
		case 4: { int d = t.pick(S); if(d == s) break; if(slot[d]) { c.destroy(slot[d]); slot[d] = nullptr; } c.op("d%d = move-construct(d%d)", d, s); std::vector<int> old = ref[s]; slot[d] = c.make<V>(std::move(*slot[s])); ref[d] = old; resync(*slot[s], ref[s]); if(!old.empty()) f.pair_op_nonempty = true; break; }
		case 5: { int d = t.pick(S); if(!slot[d]) break; c.op("d%d = d%d (copy)", d, s); if(!ref[d].empty()) f.released_before_end = true; if(!ref[d].empty() && !ref[s].empty()) f.pair_op_nonempty = true; *slot[d] = *slot[s]; ref[d] = ref[s]; break; }
		case 6: { int d = t.pick(S); if(!slot[d] || d == s) break; c.op("d%d = move(d%d)", d, s); if(!ref[d].empty()) f.released_before_end = true; if(!ref[d].empty() && !ref[s].empty()) f.pair_op_nonempty = true; std::vector<int> old = ref[s]; *slot[d] = std::move(*slot[s]); ref[d] = old; resync(*slot[s], ref[s]); break; }
		case 7: { int d = t.pick(S); if(!slot[d]) break; c.op("swap(d%d, d%d)", s, d); if(!ref[d].empty() && !ref[s].empty() && d != s) f.pair_op_nonempty = true; swap(*slot[s], *slot[d]); std::swap(ref[s], ref[d]); break; }
		default: if(!ref[s].empty()) { size_t k = t.pick(ref[s].size()); int x = nextv++; c.op("d%d[%zu] = %d", s, k, x); (*slot[s])[k] = T(x); ref[s][k] = x; } break;
		}
		check();
	}
	c.op("destroy all");
	for(int s = 0; s < S; s++) if(slot[s]) { c.destroy(slot[s]); slot[s] = nullptr; }
	VTRACK_END(c);
	if(c.focus() == "C16") c.nontrivial = f.released_before_end;
	else c.nontrivial = f.pair_op_nonempty;
}

// ---- stack --------------------------------------------------------------------------------
template<typename T>
void run_stack(Ctx &c) {
	using V = frg::stack<T, track_alloc>;
	auto &t = c.t;
	V *st = c.make<V>(track_alloc{});
	std::vector<int> ref;
	Flags f;
	c.op("stack<%s>", Name<T>::n);
	int nextv = 1;
	unsigned nops = 1 + t.pick(60);
	for(unsigned i = 0; i < nops; i++) {
		size_t before = ref.size();
		switch(t.pick(6)) {
		case 0: case 1: { int x = nextv++; const T e(x); c.op("push(%d)", x); st->push(e); ref.push_back(x); break; }
		case 2: { int x = nextv++; c.op("emplace(%d)", x); st->emplace(x); ref.push_back(x); break; }
		case 3: if(!ref.empty()) { c.op("push(top())"); c.tag("stack-push-top"); st->push(st->top()); ref.push_back(ref.back()); } break;
		default: if(!ref.empty()) { c.op("pop()"); st->pop(); ref.pop_back(); f.released_before_end = true; } break;
		}
		if(ref.size() > before) for(size_t th : {size_t(0), size_t(2), size_t(6), size_t(14)}) if(before <= th && ref.size() > th) f.crossed_up = true;
		if(ref.size() < before && f.crossed_up) f.shrank_after = true;
		VCHECK(c, "C13", st->size() == ref.size(), "stack: size() is %zu, reference %zu", st->size(), ref.size());
		VCHECK(c, "C13", st->empty() == ref.empty(), "stack: empty() is %d with %zu elements", (int)st->empty(), ref.size());
		if(!ref.empty()) VCHECK(c, "C13", payload(st->top()) == ref.back(), "stack: top() is %d, reference %d", payload(st->top()), ref.back());
		c.check_san("C13");
		VTRACK_POLL(c);
	}
	c.op("destroy");
	c.destroy(st);
	VTRACK_END(c);
	if(c.focus() == "C16") c.nontrivial = f.released_before_end;
	else c.nontrivial = f.crossed_up && f.shrank_after;
}

// ---- list ---------------------------------------------------------------------------------
template<typename T>
void run_list(Ctx &c) {
	using V = frg::list<T, track_alloc>;
	auto &t = c.t;
	V *l = c.make<V>(track_alloc{});
	std::deque<int> ref;
	Flags f;
	c.op("list<%s>", Name<T>::n);
	int nextv = 1;
	bool popped = false; size_t maxn = 0;
	unsigned nops = 1 + t.pick(40);
	for(unsigned i = 0; i < nops; i++) {
		switch(t.pick(3)) {
		case 0: case 1: { int x = nextv++; c.op("emplace_back(%d)", x); l->emplace_back(x); ref.push_back(x); break; }
		default: if(!ref.empty()) { c.op("pop_front()"); l->pop_front(); ref.pop_front(); popped = true; f.released_before_end = true; } break;
		}
		maxn = std::max(maxn, ref.size());
		VCHECK(c, "C13", l->empty() == ref.empty(), "list: empty() is %d with %zu elements", (int)l->empty(), ref.size());
		if(!ref.empty()) VCHECK(c, "C13", payload(l->front()) == ref.front(), "list: front() is %d, reference %d", payload(l->front()), ref.front());
		c.check_san("C13");
		VTRACK_POLL(c);
	}
	if(!ref.empty()) c.tag("list-destroyed-nonempty");
	c.op("destroy with %zu elements", ref.size());
	c.destroy(l);
	VTRACK_END(c);
	if(c.focus() == "C16") c.nontrivial = f.released_before_end || !ref.empty();
	else c.nontrivial = popped && maxn >= 2;
}

// ---- intrusive_list -----------------------------------------------------------------------
struct INode {
	int id;
	frg::default_list_hook<INode> hook;
};
using IList = frg::intrusive_list<INode, frg::locate_member<INode, frg::default_list_hook<INode>, &INode::hook>>;

void run_intrusive(Ctx &c) {
	auto &t = c.t;
	constexpr int NN = 10;
	INode *nodes = (INode *)c.raw(sizeof(INode) * NN);
	for(int i = 0; i < NN; i++) new (&nodes[i]) INode{i, {}};
	IList *L[2] = {c.make<IList>(), c.make<IList>()};
	std::vector<int> ref[2];
	int where[NN]; for(int i = 0; i < NN; i++) where[i] = -1;
	c.op("intrusive_list");
	bool did_splice = false, did_mid_erase = false, did_mid_insert = false;

	auto check = [&]() {
		for(int s = 0; s < 2; s++) {
			VCHECK(c, "C13", L[s]->empty() == ref[s].empty(), "intrusive_list[%d]: empty() is %d with %zu elements", s, (int)L[s]->empty(), ref[s].size());
			if(ref[s].empty()) {
				VCHECK(c, "C13", L[s]->front() == nullptr && L[s]->back() == nullptr, "intrusive_list[%d]: front/back of an empty list not null", s);
			} else {
				VCHECK(c, "C13", L[s]->front() == &nodes[ref[s].front()], "intrusive_list[%d]: front() is node %d, reference %d", s, L[s]->front() ? L[s]->front()->id : -1, ref[s].front());
				VCHECK(c, "C13", L[s]->back() == &nodes[ref[s].back()], "intrusive_list[%d]: back() is node %d, reference %d", s, L[s]->back() ? L[s]->back()->id : -1, ref[s].back());
			}
			size_t n = 0;
			for(auto it = L[s]->begin(); it != L[s]->end(); ++it, ++n) {
				VCHECK(c, "C13", n < ref[s].size(), "intrusive_list[%d]: forward walk yields more than %zu nodes", s, ref[s].size());
				VCHECK(c, "C13", *it == &nodes[ref[s][n]], "intrusive_list[%d]: forward position %zu is node %d, reference %d", s, n, (*it)->id, ref[s][n]);
				VCHECK(c, "C13", in_list_or(**it, true), "intrusive_list[%d]: node %d in the list has in_list == false", s, (*it)->id);
			}
			VCHECK(c, "C13", n == ref[s].size(), "intrusive_list[%d]: forward walk yields %zu nodes, reference %zu", s, n, ref[s].size());
			// the same walk through the value of the post-increment expression (*it++ yields the old position)
			{ size_t k = 0; auto it = L[s]->begin();
			  while(it != L[s]->end() && k <= ref[s].size()) { auto old = it++; VCHECK(c, "C13", k < ref[s].size() && *old == &nodes[ref[s][k]], "intrusive_list[%d]: it++ at position %zu returns node %d, the old position holds node %d", s, k, *old ? (*old)->id : -1, k < ref[s].size() ? ref[s][k] : -1); k++; }
			  VCHECK(c, "C13", k == ref[s].size(), "intrusive_list[%d]: the walk with it++ yields %zu nodes, reference %zu", s, k, ref[s].size()); }
			// backward walk over the public previous links
			n = ref[s].size();
			if(!has_prev_link<INode>()) { n = 0; c.tag("no-back-links"); }
			else for(INode *p = L[s]->back(); p; p = prev_of(p)) {
				VCHECK(c, "C13", n > 0, "intrusive_list[%d]: backward walk yields more than %zu nodes", s, ref[s].size());
				--n;
				VCHECK(c, "C13", p == &nodes[ref[s][n]], "intrusive_list[%d]: backward position %zu is node %d, reference %d", s, n, p->id, ref[s][n]);
			}
			VCHECK(c, "C13", n == 0, "intrusive_list[%d]: backward walk stops early, %zu nodes missing", s, n);
		}
		for(int i = 0; i < NN; i++) if(where[i] < 0) {
			// in_list is the hook's public "am I linked" flag (callers read it); what the link fields of an unlinked node hold is the
			// library's business - C13 does not speak about it - and is exercised by inserting the node again
			VCHECK(c, "C13", !in_list_or(nodes[i], false), "node %d is in no list but its hook says in_list", i);
		}
		c.check_san("C13");
	};
	auto free_node = [&]() -> int { int start = t.pick(NN); for(int k = 0; k < NN; k++) { int i = (start + k) % NN; if(where[i] < 0) return i; } return -1; };

	unsigned nops = 1 + t.pick(50);
	for(unsigned i = 0; i < nops; i++) {
		int s = t.pick(2);
		switch(t.pick(9)) {
		case 0: { int n = free_node(); if(n < 0) break; c.op("L%d.push_front(n%d)", s, n); auto it = L[s]->push_front(&nodes[n]); VCHECK(c, "C13", *it == &nodes[n], "push_front returned another iterator"); ref[s].insert(ref[s].begin(), n); where[n] = s; break; }
		case 1: { int n = free_node(); if(n < 0) break; c.op("L%d.push_back(n%d)", s, n); auto it = L[s]->push_back(&nodes[n]); VCHECK(c, "C13", *it == &nodes[n], "push_back returned another iterator"); ref[s].push_back(n); where[n] = s; break; }
		case 2: case 3: { int n = free_node(); if(n < 0) break; size_t pos = t.pick(ref[s].size() + 1);
			c.op("L%d.insert(before pos %zu, n%d)", s, pos, n);
			auto before = pos == ref[s].size() ? L[s]->end() : L[s]->iterator_to(&nodes[ref[s][pos]]);
			auto it = L[s]->insert(before, &nodes[n]); VCHECK(c, "C13", *it == &nodes[n], "insert returned another iterator");
			if(pos > 0 && pos < ref[s].size()) did_mid_insert = true;
			ref[s].insert(ref[s].begin() + pos, n); where[n] = s; break; }
		case 4: if(!ref[s].empty()) { size_t pos = t.pick(ref[s].size()); c.op("L%d.erase(pos %zu)", s, pos); INode *r = L[s]->erase(L[s]->iterator_to(&nodes[ref[s][pos]]));
			VCHECK(c, "C13", r == &nodes[ref[s][pos]], "erase returned node %d, expected %d", r ? r->id : -1, ref[s][pos]); if(pos > 0 && pos + 1 < ref[s].size()) did_mid_erase = true; where[ref[s][pos]] = -1; ref[s].erase(ref[s].begin() + pos); } break;
		case 5: if(!ref[s].empty()) { c.op("L%d.pop_front()", s); INode *r = L[s]->pop_front(); VCHECK(c, "C13", r == &nodes[ref[s].front()], "pop_front returned node %d", r ? r->id : -1); where[ref[s].front()] = -1; ref[s].erase(ref[s].begin()); } break;
		case 6: if(!ref[s].empty()) { c.op("L%d.pop_back()", s); INode *r = L[s]->pop_back(); VCHECK(c, "C13", r == &nodes[ref[s].back()], "pop_back returned node %d", r ? r->id : -1); where[ref[s].back()] = -1; ref[s].pop_back(); } break;
		case 7: if(t.pick(3) == 0) { c.op("L%d.clear()", s); L[s]->clear(); for(int n : ref[s]) where[n] = -1; ref[s].clear(); } break;
		default: { c.op("L%d.splice(end, L%d)", s, 1 - s); if(!ref[0].empty() && !ref[1].empty()) did_splice = true; L[s]->splice(L[s]->end(), *L[1 - s]);
			for(int n : ref[1 - s]) { ref[s].push_back(n); where[n] = s; } ref[1 - s].clear(); break; }
		}
		check();
	}
	c.nontrivial = did_splice || (did_mid_erase && did_mid_insert);
	if(did_splice) c.tag("splice-nonempty"); if(did_mid_erase) c.tag("mid-erase"); if(did_mid_insert) c.tag("mid-insert");
}

// ---- intrusive_list with an owning owner_pointer ----------------------------------------------
// The list is generic over (owner_pointer, borrow_pointer); with an owner that gives up its referent when it is moved from
// (a reference-counting pointer, as a kernel would use) every std::move inside the list really transfers ownership.
struct ONode;
struct RefPtr {
	ONode *p = nullptr;
	RefPtr() = default;
	RefPtr(decltype(nullptr)) {}
	explicit RefPtr(ONode *n);
	RefPtr(const RefPtr &o);
	RefPtr(RefPtr &&o) noexcept : p(o.p) { o.p = nullptr; }
	RefPtr &operator=(RefPtr o) noexcept { std::swap(p, o.p); return *this; }
	~RefPtr();
	explicit operator bool() const { return p != nullptr; }
	operator ONode *() const { return p; }
	ONode *operator->() const { return p; }
};
struct ONode {
	int id; int refs;
	frg::intrusive_list_hook<RefPtr, ONode *> hook;
	ONode() { id = 0; refs = 0; }
};
RefPtr::RefPtr(ONode *n) : p(n) { if(p) p->refs++; }
RefPtr::RefPtr(const RefPtr &o) : p(o.p) { if(p) p->refs++; }
RefPtr::~RefPtr() { if(p) p->refs--; }
} // namespace
namespace frg {
template<> struct intrusive_traits<ONode, RefPtr, ONode *> { static ONode *decay(const RefPtr &o) { return o.p; } };
}
namespace {
using OList = frg::intrusive_list<ONode, frg::locate_member<ONode, frg::intrusive_list_hook<RefPtr, ONode *>, &ONode::hook>>;

void run_intrusive_owned(Ctx &c) {
	auto &t = c.t;
	constexpr int NN = 12;
	ONode *nodes = (ONode *)c.raw(sizeof(ONode) * NN);
	memset((void *)nodes, 0xA5, sizeof(ONode) * NN);
	for(int i = 0; i < NN; i++) { new (&nodes[i]) ONode; nodes[i].id = i; }
	OList *L[2] = {c.make<OList>(), c.make<OList>()};
	std::vector<int> ref[2];
	std::vector<int> where(NN, -1);
	c.op("intrusive_list with a reference-counting owner_pointer");
	bool mid = false, spliced = false;
	auto check = [&]() {
		for(int s = 0; s < 2; s++) {
			VCHECK(c, "C13", L[s]->empty() == ref[s].empty(), "owned list %d: empty() is %d with %zu nodes", s, (int)L[s]->empty(), ref[s].size());
			size_t n = 0;
			for(auto it = L[s]->begin(); it != L[s]->end(); ++it, ++n) {
				VCHECK(c, "C13", n < ref[s].size(), "owned list %d: iteration yields more than %zu nodes", s, ref[s].size());
				VCHECK(c, "C13", (*it)->id == ref[s][n], "owned list %d: position %zu is node %d, reference %d", s, n, (*it)->id, ref[s][n]);
			}
			VCHECK(c, "C13", n == ref[s].size(), "owned list %d: iteration yields %zu nodes, reference %zu", s, n, ref[s].size());
			if(!ref[s].empty()) {
				VCHECK(c, "C13", L[s]->front() == &nodes[ref[s].front()] && L[s]->back() == &nodes[ref[s].back()], "owned list %d: front()/back() are not the reference's", s);
				size_t k = ref[s].size();
				if(!has_prev_link<ONode>()) k = 0;
				else for(ONode *p = L[s]->back(); p; p = prev_of(p)) { VCHECK(c, "C13", k > 0 && p->id == ref[s][k - 1], "owned list %d: the back links reach node %d at reverse position %zu", s, p->id, ref[s].size() - k); k--; }
				VCHECK(c, "C13", k == 0, "owned list %d: the back links reach %zu of %zu nodes", s, ref[s].size() - k, ref[s].size());
			}
		}
		for(int i = 0; i < NN; i++) {
			VCHECK(c, "C13", in_list_or(nodes[i], where[i] >= 0) == (where[i] >= 0), "node %d: in_list is %d, the reference says it is %s", i, (int)in_list_or(nodes[i], where[i] >= 0), where[i] >= 0 ? "linked" : "not linked");
			VCHECK(c, "C13", nodes[i].refs == (where[i] >= 0 ? 1 : 0), "node %d is owned %d time(s); the reference says %d (one owner per linked node: the list)", i, nodes[i].refs, where[i] >= 0 ? 1 : 0);
		}
		c.check_san("C13");
	};
	unsigned nops = 1 + t.pick(30);
	for(unsigned i = 0; i < nops; i++) {
		int s = t.pick(2);
		int fresh = -1; for(int k = 0; k < NN; k++) { int cand = (k + (int)t.pick(NN)) % NN; if(where[cand] < 0) { fresh = cand; break; } if(k > 2) break; }
		for(int k = 0; fresh < 0 && k < NN; k++) if(where[k] < 0) fresh = k;
		switch(t.pick(9)) {
		case 0: if(fresh >= 0) { c.op("O%d.push_back(#%d)", s, fresh); L[s]->push_back(RefPtr(&nodes[fresh])); ref[s].push_back(fresh); where[fresh] = s; } break;
		case 1: if(fresh >= 0) { c.op("O%d.push_front(#%d)", s, fresh); if(!ref[s].empty()) c.tag("owned-push_front-nonempty"); L[s]->push_front(RefPtr(&nodes[fresh])); ref[s].insert(ref[s].begin(), fresh); where[fresh] = s; } break;
		case 2: case 3: if(fresh >= 0) { size_t pos = t.pick(ref[s].size() + 1); c.op("O%d.insert(pos %zu, #%d)", s, pos, fresh);
			auto it = pos == ref[s].size() ? L[s]->end() : L[s]->iterator_to(&nodes[ref[s][pos]]);
			if(pos > 0 && pos < ref[s].size()) { mid = true; c.tag("owned-insert-middle"); }
			L[s]->insert(it, RefPtr(&nodes[fresh])); ref[s].insert(ref[s].begin() + pos, fresh); where[fresh] = s; } break;
		case 4: if(!ref[s].empty()) { size_t pos = t.pick(ref[s].size()); c.op("O%d.erase(pos %zu)", s, pos); { RefPtr r = L[s]->erase(L[s]->iterator_to(&nodes[ref[s][pos]]));
			VCHECK(c, "C13", r.p == &nodes[ref[s][pos]], "erase returned the owner of node %d", r.p ? r.p->id : -1); VCHECK(c, "C13", r.p && r.p->refs == 1, "erase: the returned owner is not the only one (%d)", r.p ? r.p->refs : -1); }
			where[ref[s][pos]] = -1; ref[s].erase(ref[s].begin() + pos); } break;
		case 5: if(!ref[s].empty()) { c.op("O%d.pop_front()", s); { RefPtr r = L[s]->pop_front(); VCHECK(c, "C13", r.p == &nodes[ref[s].front()], "pop_front returned node %d", r.p ? r.p->id : -1); } where[ref[s].front()] = -1; ref[s].erase(ref[s].begin()); } break;
		case 6: if(!ref[s].empty()) { c.op("O%d.pop_back()", s); { RefPtr r = L[s]->pop_back(); VCHECK(c, "C13", r.p == &nodes[ref[s].back()], "pop_back returned node %d", r.p ? r.p->id : -1); } where[ref[s].back()] = -1; ref[s].pop_back(); } break;
		case 7: if(t.pick(3) == 0) { c.op("O%d.clear()", s); L[s]->clear(); for(int n : ref[s]) where[n] = -1; ref[s].clear(); } break;
		default: { c.op("O%d.splice(end, O%d)", s, 1 - s); if(!ref[0].empty() && !ref[1].empty()) spliced = true; L[s]->splice(L[s]->end(), *L[1 - s]); for(int n : ref[1 - s]) { ref[s].push_back(n); where[n] = s; } ref[1 - s].clear(); break; }
		}
		check();
	}
	c.op("clear both");
	L[0]->clear(); L[1]->clear(); ref[0].clear(); ref[1].clear(); for(int &w : where) w = -1;
	check();
	c.nontrivial = mid || spliced;
	c.tag("owned-intrusive-list");
}

// ---- element types whose value-initialised state is not all-zero bytes ------------------------
// A null pointer to data member is represented as -1 (Itanium ABI): "value-initialise = zero-fill" is wrong for it.
struct Regs { int ax, bx, cx; };
void run_memptr(Ctx &c) {
	auto &t = c.t;
	using E = int Regs::*;
	static const E vals[4] = {nullptr, &Regs::ax, &Regs::bx, &Regs::cx};
	c.op("vector / small_vector / dyn_array of pointers to data members");
	frg::vector<E, track_alloc> *v = c.make<frg::vector<E, track_alloc>>(track_alloc{});
	frg::small_vector<E, 4, track_alloc> *sv = c.make<frg::small_vector<E, 4, track_alloc>>(track_alloc{});
	std::vector<E> rv, rsv;
	unsigned nops = 2 + t.pick(20);
	auto same = [&](const char *what) {
		VCHECK(c, "C13", v->size() == rv.size() && sv->size() == rsv.size(), "%s: sizes %zu/%zu, reference %zu/%zu", what, v->size(), sv->size(), rv.size(), rsv.size());
		for(size_t i = 0; i < rv.size(); i++) VCHECK(c, "C13", (*v)[i] == rv[i], "%s: vector<int Regs::*>[%zu] %s, the reference %s", what, i, (*v)[i] == nullptr ? "is null" : "points to a member", rv[i] == nullptr ? "is null" : "points to a member");
		for(size_t i = 0; i < rsv.size(); i++) VCHECK(c, "C13", (*sv)[i] == rsv[i], "%s: small_vector<int Regs::*>[%zu] %s, the reference %s", what, i, (*sv)[i] == nullptr ? "is null" : "points to a member", rsv[i] == nullptr ? "is null" : "points to a member");
	};
	for(unsigned i = 0; i < nops; i++) {
		switch(t.pick(4)) {
		case 0: { E e = vals[t.pick(4)]; c.op("push"); v->push(e); rv.push_back(e); sv->push_back(e); rsv.push_back(e); break; }
		case 1: { size_t n = t.pick(24); c.op("resize(%zu) (value-initialised new elements)", n); if(n > rv.size()) c.tag("memptr-resize-grow"); v->resize(n); rv.resize(n); sv->resize(n); rsv.resize(n); break; }
		case 2: { size_t n = t.pick(24); E e = vals[t.pick(4)]; c.op("resize(%zu, value)", n); v->resize(n, e); rv.resize(n, e); sv->resize(n, e); rsv.resize(n, e); break; }
		default: if(!rv.empty()) { c.op("pop"); v->pop(); rv.pop_back(); sv->pop_back(); rsv.pop_back(); } break;
		}
		same("the operation");
	}
	{ size_t n = 1 + t.pick(9); frg::dyn_array<E, track_alloc> *d = c.make<frg::dyn_array<E, track_alloc>>(n, track_alloc{});
	  for(size_t i = 0; i < n; i++) VCHECK(c, "C13", (*d)[i] == nullptr, "dyn_array<int Regs::*>(%zu)[%zu] is not a null member pointer", n, i); c.destroy(d); }
	c.destroy(sv); c.destroy(v);
	VTRACK_END(c);
	c.nontrivial = nops >= 6;
}

// ---- assignment from a source that the destination owns ----------------------------------
// node { id, kids }: parent.kids = parent.kids[k].kids (copy and move). The source vector lives in an element of the
// destination; the model computes the result from a deep copy taken before the call.
struct Node {
	Tracked id; frg::vector<Node, track_alloc> kids;
	Node(int i) : id(i), kids(track_alloc{}) {}
};
struct MNode { int id; std::vector<MNode> kids; };
struct DNode {
	Tracked id; frg::dyn_array<DNode, track_alloc> kids;
	DNode() : id(0), kids() {}
};
void build(Tape &t, Node &n, MNode &m, int depth, int &next) {
	unsigned k = depth >= 3 ? 0 : t.pick(depth == 0 ? 5 : 4);
	for(unsigned i = 0; i < k; i++) { int id = next++; n.kids.emplace_back(id); m.kids.push_back(MNode{id, {}}); }
	for(unsigned i = 0; i < k; i++) build(t, n.kids[i], m.kids[i], depth + 1, next);
}
void compare(Ctx &c, const Node &n, const MNode &m, const char *after) {
	VCHECK(c, "C13", n.id.get() == m.id, "after %s: node holds id %d, reference %d", after, n.id.get(), m.id);
	VCHECK(c, "C13", n.kids.size() == m.kids.size(), "after %s: node %d has %zu children, reference %zu", after, m.id, n.kids.size(), m.kids.size());
	for(size_t i = 0; i < m.kids.size(); i++) compare(c, n.kids[i], m.kids[i], after);
}
void run_nested(Ctx &c) {
	auto &t = c.t;
	c.op("vector<node{id, vector<node>}>: assignment from a vector owned by an element of the destination");
	int next = 1;
	Node *root = c.make<Node>(0);
	MNode mroot{0, {}};
	build(t, *root, mroot, 0, next);
	compare(c, *root, mroot, "construction");
	unsigned nops = 1 + t.pick(6);
	bool did = false;
	for(unsigned i = 0; i < nops; i++) {
		// walk to a random node that has children
		Node *n = root; MNode *m = &mroot;
		while(!m->kids.empty() && t.pick(3) == 0) { size_t k = t.pick(m->kids.size()); n = &n->kids[k]; m = &m->kids[k]; }
		if(m->kids.empty()) { int id = next++; c.op("node %d: emplace_back(%d)", m->id, id); n->kids.emplace_back(id); m->kids.push_back(MNode{id, {}}); compare(c, *root, mroot, "emplace_back"); continue; }
		size_t k = t.pick(m->kids.size());
		unsigned op = t.pick(6);
		auto count = [&](auto &&self, const MNode &x) -> size_t { size_t n = 1; for(auto &k : x.kids) n += self(self, k); return n; };
		if(op >= 4) {      // the argument is the object that owns the container: the new element is a copy of the state before the call
			if(count(count, mroot) > 60) continue;
			c.tag("append-own-owner");
			MNode tmp = *m;
			if(op == 4) { c.op("node %d: kids.push(*this node)", m->id); n->kids.push(*n); } else { c.op("node %d: kids.emplace_back(*this node)", m->id); n->kids.emplace_back(*n); }
			m->kids.push_back(tmp);
		}
		else if(op == 0) { c.op("node %d: kids = kids[%zu].kids (copy)", m->id, k); c.tag("assign-from-owned-copy"); std::vector<MNode> tmp = m->kids[k].kids; n->kids = n->kids[k].kids; m->kids = tmp; did = true; }
		else if(op == 1) { c.op("node %d: kids = move(kids[%zu].kids)", m->id, k); c.tag("assign-from-owned-move"); std::vector<MNode> tmp = std::move(m->kids[k].kids); n->kids = std::move(n->kids[k].kids); m->kids = tmp; did = true; }
		else if(op == 2) { c.op("node %d: kids.push(kids[%zu]) (element copied into its own container)", m->id, k); c.tag("push-own-element-deep"); MNode tmp = m->kids[k]; n->kids.push(n->kids[k]); m->kids.push_back(tmp); }
		else { c.op("node %d: kids[%zu].kids = kids (child receives a copy of the vector that holds it)", m->id, k); c.tag("assign-container-to-owned"); std::vector<MNode> tmp = m->kids; n->kids[k].kids = n->kids; m->kids[k].kids = tmp; }
		compare(c, *root, mroot, "the assignment");
		c.check_san("C13");
		VTRACK_POLL(c);
	}
	c.op("destroy");
	c.destroy(root);
	VTRACK_END(c);
	c.nontrivial = did;
}

} // namespace

void verif_case(Ctx &c) {
	unsigned kind = c.t.pick(28);
	c.tagf("kind-%u", kind);
	switch(kind) {
	case 18: run_vector<Braced>(c); return;
	case 19: run_small_vector<Braced, 4>(c); return;
	case 20: run_stack<Braced>(c); return;
	case 21: run_list<Braced>(c); return;
	case 22: run_dyn_array<Braced>(c); return;
	case 23: run_nested(c); return;
	case 13: run_vector<Anchored>(c); return;
	case 14: run_small_vector<Anchored, 4>(c); return;
	case 15: run_dyn_array<Anchored>(c); return;
	case 16: run_stack<Anchored>(c); return;
	case 17: run_vector<Fuzzy>(c); return;
	case 0: run_vector<int>(c); break;
	case 1: run_vector<Tracked>(c); break;
	case 2: run_small_vector<int, 4>(c); break;
	case 3: run_small_vector<Tracked, 4>(c); break;
	case 4: run_small_vector<int, 1>(c); break;
	case 5: run_small_vector<Tracked, 1>(c); break;
	case 6: run_dyn_array<int>(c); break;
	case 7: run_dyn_array<Tracked>(c); break;
	case 8: run_stack<int>(c); break;
	case 9: run_stack<Tracked>(c); break;
	case 10: run_list<int>(c); break;
	case 11: run_list<Tracked>(c); break;
	case 24: run_intrusive_owned(c); return;
	case 25: run_small_vector<int, 0>(c); return;
	case 26: run_small_vector<Tracked, 0>(c); return;
	case 27: run_memptr(c); return;
	default: if(c.focus() == "C16") { run_list<Tracked>(c); } else run_intrusive(c); break;
	}
}
