// C12 (second half): unique_lock, shared_lock and the QS lock_guard keep acquire/release balanced.
// Preconditions respected by the generator: lock() only on a guard that has a mutex and does not
// own it (asserted), and only when a correct mutex would not block (the mutex is free, or for
// shared locks not held exclusively); unlock() only on an owning guard (asserted); adopt_lock only
// after the harness acquired the mutex itself.
#include <vector>
#include <frg/mutex.hpp>
#include <frg/qs.hpp>
#include "../engine/verif.hpp"
#include "../engine/inst_mutex.hpp"

const char *verif_harness = "guard_seq";
using namespace verif;
void verif_case_reset() { mutex_log().reset(); }

namespace {
template<typename G, bool Shared>
struct Runner {
	Ctx &c;
	inst_mutex *mx[2];
	static constexpr int S = 3;
	G *slot[S] = {nullptr, nullptr, nullptr};
	int gm[S] = {-1, -1, -1}; bool owns[S] = {false, false, false};
	bool transfer = false;
	const char *name() { return Shared ? "shared_lock" : "unique_lock"; }
	bool can_lock(int m) {     // would a correct mutex grant the lock without blocking?
		if(Shared) return mx[m]->excl == 0;
		return mx[m]->excl == 0 && mx[m]->shared == 0;
	}
	void raw_lock(int m) { if(Shared) mx[m]->lock_shared(); else mx[m]->lock(); }
	void check(const char *after) {
		VMUTEX_POLL(c, "C12");
		int want[2] = {0, 0};
		for(int s = 0; s < S; s++) if(slot[s]) {
			VCHECK(c, "C12", slot[s]->is_locked() == owns[s], "after %s: %s %d says is_locked() == %d, the model says %d", after, name(), s, (int)slot[s]->is_locked(), (int)owns[s]);
			for(int m = 0; m < 2; m++) VCHECK(c, "C12", slot[s]->protects(mx[m]) == (owns[s] && gm[s] == m), "after %s: %s %d protects(mutex %d) is %d", after, name(), s, m, (int)slot[s]->protects(mx[m]));
			if(owns[s]) want[gm[s]]++;
		}
		for(int m = 0; m < 2; m++) {
			int held = Shared ? mx[m]->shared : mx[m]->excl;
			VCHECK(c, "C12", held == want[m], "after %s: mutex %d is held %d time(s), %d guard(s) say they own it", after, m, held, want[m]);
			VCHECK(c, "C12", (Shared ? mx[m]->excl : mx[m]->shared) == 0, "after %s: mutex %d is held through the wrong kind of lock", after, m);
		}
	}
	void kill(int s) { if(slot[s]) { c.destroy(slot[s]); slot[s] = nullptr; owns[s] = false; gm[s] = -1; } }
	void run() {
		auto &t = c.t;
		mx[0] = c.make<inst_mutex>(); mx[1] = c.make<inst_mutex>();
		c.op("%s", name());
		unsigned nops = 1 + t.pick(30);
		for(unsigned i = 0; i < nops; i++) {
			int s = t.pick(S), d = t.pick(S), m = t.pick(2);
			switch(t.pick(15)) {
			case 0: kill(s); if(can_lock(m)) { c.op("g%d = %s(m%d)", s, name(), m); slot[s] = c.make<G>(*mx[m]); gm[s] = m; owns[s] = true; } break;
			case 1: kill(s); c.op("g%d = %s(dont_lock, m%d)", s, name(), m); slot[s] = c.make<G>(frg::dont_lock, *mx[m]); gm[s] = m; break;
			case 2: kill(s); if(can_lock(m)) { c.op("g%d = %s(adopt_lock, m%d)", s, name(), m); raw_lock(m); slot[s] = c.make<G>(frg::adopt_lock, *mx[m]); gm[s] = m; owns[s] = true; } break;
			case 3: kill(s); c.op("g%d = %s()", s, name()); slot[s] = c.make<G>(); break;
			case 4: if(slot[s] && gm[s] >= 0 && !owns[s] && can_lock(gm[s])) { c.op("g%d.lock()", s); slot[s]->lock(); owns[s] = true; } break;
			case 5: if(slot[s] && owns[s]) { c.op("g%d.unlock()", s); slot[s]->unlock(); owns[s] = false; } break;
			case 6: if(slot[s] && d != s) { kill(d); c.op("g%d = move-construct(g%d)", d, s); if(owns[s]) transfer = true; slot[d] = c.make<G>(std::move(*slot[s])); gm[d] = gm[s]; owns[d] = owns[s]; gm[s] = -1; owns[s] = false; } break;
			case 7: if(slot[s] && slot[d]) { c.op("g%d = move(g%d)", d, s); if(owns[s] || owns[d]) transfer = true;
				if(d != s) { *slot[d] = std::move(*slot[s]); gm[d] = gm[s]; owns[d] = owns[s]; gm[s] = -1; owns[s] = false; } else { G &alias = *slot[s]; *slot[d] = std::move(alias); c.tag("self-move-assign"); } } break;
			case 8: if(slot[s] && slot[d]) { c.op("swap(g%d, g%d)", s, d); if(d != s && (owns[s] || owns[d])) transfer = true; swap(*slot[s], *slot[d]); std::swap(gm[s], gm[d]); std::swap(owns[s], owns[d]); } break;
			case 9: c.op("destroy g%d", s); kill(s); break;
			case 10: if constexpr(!Shared) { kill(s); if(can_lock(m)) { c.op("g%d = guard(&m%d)", s, m); slot[s] = c.make<G>(frg::guard(mx[m])); gm[s] = m; owns[s] = true; } } break;
			// misuse: the library refuses these through its assertion hook. Whether it refuses or not, acquire and release calls must stay
			// balanced ("on every path"): the model treats the call as having no effect and check() compares the mutex with what the guards say.
			case 12: if(slot[s] && owns[s]) { c.op("g%d.lock() although it owns the lock (misuse)", s); try { slot[s]->lock(); c.tag("misuse-not-refused"); } catch(Panic &) { c.tag("misuse-refused"); } } break;
			case 13: if(slot[s] && !owns[s]) { c.op("g%d.unlock() although it does not own the lock (misuse)", s); try { slot[s]->unlock(); c.tag("misuse-not-refused"); } catch(Panic &) { c.tag("misuse-refused"); } } break;
			default: if constexpr(!Shared) { kill(s); c.op("g%d = guard(dont_lock, &m%d)", s, m); slot[s] = c.make<G>(frg::guard(frg::dont_lock, mx[m])); gm[s] = m; } break;
			}
			check("the operation");
		}
		c.op("destroy all");
		for(int s = 0; s < S; s++) kill(s);
		check("destroying every guard");
		for(int m = 0; m < 2; m++) {
			VCHECK(c, "C12", mx[m]->excl == 0 && mx[m]->shared == 0, "mutex %d is still held after every guard was destroyed", m);
			VCHECK(c, "C12", mx[m]->n_lock == mx[m]->n_unlock && mx[m]->n_lock_shared == mx[m]->n_unlock_shared, "mutex %d: %llu lock / %llu unlock, %llu lock_shared / %llu unlock_shared", m,
					(unsigned long long)mx[m]->n_lock, (unsigned long long)mx[m]->n_unlock, (unsigned long long)mx[m]->n_lock_shared, (unsigned long long)mx[m]->n_unlock_shared);
		}
		c.nontrivial = transfer;
		c.tag(name());
	}
};

void run_qs_guard(Ctx &c) {
	auto &t = c.t;
	using G = frg::lock_guard<inst_mutex>;
	inst_mutex *m = c.make<inst_mutex>();
	c.op("qs lock_guard");
	G *g = nullptr; bool owns = false; unsigned cycles = 0;
	unsigned nops = 1 + t.pick(12);
	for(unsigned i = 0; i < nops; i++) {
		switch(t.pick(4)) {
		case 0: if(!g) { c.op("lock_guard(m)"); g = c.make<G>(*m); owns = true; } break;
		case 1: if(g && owns) { c.op("unlock()"); g->unlock(); owns = false; cycles++; } break;
		case 2: if(g && !owns) { c.op("lock()"); g->lock(); owns = true; } break;
		default: if(g) { c.op("~lock_guard"); c.destroy(g); g = nullptr; if(owns) cycles++; owns = false; } break;
		}
		VMUTEX_POLL(c, "C12");
		VCHECK(c, "C12", m->excl == (owns ? 1 : 0), "the mutex is held %d time(s), the guard %s it", m->excl, owns ? "owns" : "does not own");
	}
	if(g) { c.destroy(g); g = nullptr; }
	VMUTEX_POLL(c, "C12");
	VCHECK(c, "C12", m->excl == 0 && m->n_lock == m->n_unlock, "after the guard was destroyed: held %d, %llu lock / %llu unlock", m->excl, (unsigned long long)m->n_lock, (unsigned long long)m->n_unlock);
	c.nontrivial = cycles >= 1;
	c.tag("qs-lock_guard");
}
}

void verif_case(Ctx &c) {
	unsigned k = c.t.pick(5);
	if(k <= 1) Runner<frg::unique_lock<inst_mutex>, false>{c}.run();
	else if(k <= 3) Runner<frg::shared_lock<inst_mutex>, true>{c}.run();
	else run_qs_guard(c);
}

// destination state x source state x operation, for both guard kinds (the product is small)
void verif_enum(Enum &e) {
	// constructions: 0 locked, 1 dont_lock, 2 adopt, 3 default   ops: 6 move-construct, 7 move-assign, 8 swap
	uint64_t n = 0;
	for(uint32_t kind : {0u, 2u}) for(uint32_t ds = 0; ds < 4; ds++) for(uint32_t ss = 0; ss < 4; ss++) for(uint32_t op : {6u, 7u, 8u}) for(uint32_t m2 = 0; m2 < 2; m2++) {
		// tape: kind, nops-1 = 3, [s=0,d,m=0,ctor ds] [s=1,d,m=m2,ctor ss] [s=1,d=0,m,op] [s=0.. destroy]
		std::vector<uint32_t> tape{kind, 3, 0, 0, 0, ds, 1, 0, m2, ss, 1, 0, 0, op, 0, 0, 0, 9};
		if(!e.run(tape)) return; n++;
	}
	e.scope("guard kind x destination state x source state x {move-construct, move-assign, swap} x same/other mutex", n);
}
