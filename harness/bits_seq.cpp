// C18: bitset<N> vs std::bitset<N>, array vs std::array, mt19937 / pcg_basic32 vs reference
// streams, insertion_sort postcondition.
//
// Preconditions respected by the generator:
//   bit indices < N (frigg does not range-check; std::bitset throws)
//   pcg(bound) with bound > 0; comparators are strict weak orders
//   observation is through the public interface only: bits >= N are seen through count(),
//   all(), == (none of which mask), memory outside the object through canaries around it.
#include <bitset>
#include <array>
#include <random>
#include <vector>
#include <string>
#include <algorithm>
#include <frg/bitset.hpp>
#include <frg/array.hpp>
#include <frg/random.hpp>
#include <frg/algorithm.hpp>
#include "../engine/verif.hpp"

const char *verif_harness = "bits_seq";
using namespace verif;
// set(pos, val) with an argument that converts to bool - through a template, so that an implementation that only accepts bool gets a bool
template<typename F, typename V> void set_as(F &f, size_t p, V v) { if constexpr(requires { f.set(p, v); }) f.set(p, v); else f.set(p, (bool)v); }

namespace {

// ------------------------------------------------------------------------------------------
template<size_t N>
struct BitRunner {
	using F = frg::bitset<N>;
	using R = std::bitset<N>;
	static constexpr size_t CAN = 32;

	static F *place(Ctx &c, unsigned char **base) {
		// storage pre-filled with 0xA5 and fenced by canaries, so that words a constructor forgets
		// are visibly garbage and writes outside the object are seen
		unsigned char *raw = (unsigned char *)c.raw(sizeof(F) + 2 * CAN, alignof(F) < 16 ? 16 : alignof(F));
		memset(raw, 0xA5, sizeof(F) + 2 * CAN);
		*base = raw;
		return reinterpret_cast<F *>(raw + CAN);
	}
	static void canaries(Ctx &c, unsigned char *raw, const char *who) {
		for(size_t i = 0; i < CAN; i++)
			VCHECK(c, "C18", raw[i] == 0xA5 && raw[CAN + sizeof(F) + i] == 0xA5, "bitset<%zu> %s: memory outside the object was written (canary byte %zu)", N, who, i);
	}
	static R from_val(unsigned long long v) { return R(v); }

	static void compare(Ctx &c, const F &f, const R &r, const char *after) {
		for(size_t i = 0; i < N; i++)
			VCHECK(c, "C18", f.test(i) == r.test(i) && f[i] == r[i], "bitset<%zu> after %s: bit %zu is %d, std::bitset has %d", N, after, i, (int)f.test(i), (int)r.test(i));
		VCHECK(c, "C18", f.count() == r.count(), "bitset<%zu> after %s: count() is %zu, std::bitset %zu (bits at or beyond N set?)", N, after, f.count(), r.count());
		VCHECK(c, "C18", f.any() == r.any() && f.none() == r.none() && f.all() == r.all(), "bitset<%zu> after %s: any/none/all are %d/%d/%d, std %d/%d/%d", N, after,
				(int)f.any(), (int)f.none(), (int)f.all(), (int)r.any(), (int)r.none(), (int)r.all());
		VCHECK(c, "C18", f.size() == N, "size()");
	}

	static void run(Ctx &c) {
		auto &t = c.t;
		unsigned char *rawa, *rawb;
		F *fa = place(c, &rawa), *fb = place(c, &rawb);
		new (fa) F(); new (fb) F();
		R ra, rb;
		c.op("bitset<%zu>", N);
		bool big_shift = false, multiword_nonzero = false;
		auto val = [&]() -> unsigned long long {
			switch(t.pick(6)) { case 0: return 0; case 1: return ~0ull; case 2: return 1ull << t.pick(64); case 3: return (1ull << t.pick(64)) - 1; default: return t.next64(); }
		};
		unsigned nops = 1 + t.pick(30);
		for(unsigned i = 0; i < nops; i++) {
			bool second = t.pick(3) == 0;
			F &f = second ? *fb : *fa; R &r = second ? rb : ra;
			F &of = second ? *fa : *fb; R &orr = second ? ra : rb;
			const char *w = second ? "b" : "a";
			unsigned op = t.pick(32);
			switch(op) {
			case 0: { unsigned long long v = val(); c.op("%s = bitset(%#llx)", w, v); f.~F(); memset((void *)&f, 0xA5, sizeof(F)); new (&f) F(v); r = from_val(v); break; }
			case 1: { size_t p = t.pick(N); uint32_t fv = t.next(); bool v = fv & 1; unsigned how = (fv >> 1) % 4;
				// set(pos, val): val is a bool parameter; callers pass flag tests (x & 4), counts and other values that convert to bool
				if(how == 1) { int iv = v ? (int)(2u << ((fv >> 3) % 20)) : 0; c.op("%s.set(%zu, int %d)", w, p, iv); set_as(f, p, iv); r.set(p, iv); c.tag("bitset-set-nonbool-value"); }
				else if(how == 2) { unsigned long long lv = v ? (1ull << (8 + (fv >> 3) % 55)) : 0; c.op("%s.set(%zu, %#llx)", w, p, lv); set_as(f, p, lv); r.set(p, lv); c.tag("bitset-set-nonbool-value"); }
				else if(how == 3) { double dv = v ? 0.5 : 0.0; c.op("%s.set(%zu, %g)", w, p, dv); set_as(f, p, dv); r.set(p, dv); c.tag("bitset-set-nonbool-value"); }
				else { c.op("%s.set(%zu,%d)", w, p, (int)v); f.set(p, v); r.set(p, v); }
				break; }
			case 2: { size_t p = t.pick(N); c.op("%s.reset(%zu)", w, p); f.reset(p); r.reset(p); break; }
			case 3: { size_t p = t.pick(N); c.op("%s.flip(%zu)", w, p); f.flip(p); r.flip(p); break; }
			case 4: c.op("%s.set()", w); f.set(); r.set(); break;
			case 5: c.op("%s.reset()", w); f.reset(); r.reset(); break;
			case 6: c.op("%s.flip()", w); f.flip(); r.flip(); break;
			case 7: { size_t p = t.pick(N); bool v = t.flip(); c.op("%s[%zu] = %d", w, p, (int)v); f[p] = v; r[p] = v; break; }
			case 8: { size_t p = t.pick(N), q = t.pick(N); c.op("%s[%zu] = %s[%zu]", w, p, second ? "a" : "b", q); f[p] = of[q]; r[p] = orr[q]; break; }
			case 9: { size_t p = t.pick(N), q = t.pick(N); c.op("%s[%zu] = %s[%zu] (same set)", w, p, w, q); f[p] = f[q]; r[p] = r[q]; break; }
			case 10: { size_t p = t.pick(N); c.op("~%s[%zu]", w, p); bool got = ~f[p]; bool exp = ~r[p]; VCHECK(c, "C18", got == exp, "bitset<%zu>: ~ref of bit %zu is %d, std %d", N, p, (int)got, (int)exp); c.tag("ref-not"); break; }
			case 11: { size_t p = t.pick(N); c.op("%s[%zu].flip()", w, p); f[p].flip(); r[p].flip(); bool got = f[p]; VCHECK(c, "C18", got == r.test(p), "ref conversion after flip"); break; }
			case 12: c.op("%s &= other", w); f &= of; r &= orr; break;
			case 13: c.op("%s |= other", w); f |= of; r |= orr; break;
			case 14: c.op("%s ^= other", w); f ^= of; r ^= orr; break;
			case 15: c.op("%s = ~%s", w, w); f = ~f; r = ~r; break;
			// chained calls: every mutator returns the object itself, so a chain acts on it as the single calls would
			case 28: { size_t p1 = t.pick(N), p2 = t.pick(N); c.op("%s.reset(%zu).flip(%zu).set(%zu)", w, p1, p2, p1); f.reset(p1).flip(p2).set(p1); r.reset(p1).flip(p2).set(p1); c.tag("bitset-chained-mutators"); break; }
			case 29: { size_t p1 = t.pick(N), p2 = t.pick(N); c.op("%s.flip(%zu).reset(%zu)", w, p1, p2); f.flip(p1).reset(p2); r.flip(p1).reset(p2); c.tag("bitset-chained-mutators"); break; }
			case 30: { size_t p1 = t.pick(N); c.op("%s.set(%zu).flip() ; (%s.reset(%zu) <<= 1)", w, p1, w, p1); f.set(p1).flip(); r.set(p1).flip(); f.reset(p1) <<= 1; r.reset(p1) <<= 1; c.tag("bitset-chained-mutators"); break; }
			case 31: { size_t p1 = t.pick(N); c.op("%s.flip(%zu) |= other ; %s.reset().set(%zu)", w, p1, w, p1); f.flip(p1) |= of; r.flip(p1) |= orr; f.reset().set(p1); r.reset().set(p1); c.tag("bitset-chained-mutators"); break; }
			// the right-hand side is the object itself (through an alias)
			case 24: { auto &fa = f; auto &ra = r; c.op("%s &= %s (itself)", w, w); f &= fa; r &= ra; c.tag("bitset-self-op"); break; }
			case 25: { auto &fa = f; auto &ra = r; c.op("%s |= %s (itself)", w, w); f |= fa; r |= ra; c.tag("bitset-self-op"); break; }
			case 26: { auto &fa = f; auto &ra = r; c.op("%s ^= %s (itself)", w, w); f ^= fa; r ^= ra; c.tag("bitset-self-op"); break; }
			case 27: { auto &fa = f; c.op("%s == %s (itself), %s = %s", w, w, w, w); VCHECK(c, "C18", f == fa, "a bitset is not equal to itself"); f = fa; break; }
			case 16: case 17: case 18: case 19: {
				size_t sh; unsigned how = t.pick(7);
				if(how == 0) sh = t.pick(8); else if(how == 1) sh = 64 * t.pick(N / 64 + 3) ; else if(how == 2) sh = N - 1 + t.pick(3); else if(how == 3) sh = N + t.pick(131);
				else if(how == 6) {      // "by any amount": amounts whose word count or bit count wraps in a narrower type (2^32, 2^38 = 64 * 2^32, 2^63, SIZE_MAX) and their neighbours
					static const size_t huge[] = {size_t(1) << 32, (size_t(1) << 32) + 64, size_t(1) << 38, (size_t(1) << 38) + 64, size_t(3) << 38, size_t(1) << 44, size_t(1) << 63, ~size_t(0), ~size_t(0) - 63, (size_t(1) << 31) * 64};
					sh = huge[t.pick(10)] + (t.flip() ? 0 : t.pick(N + 70)); c.tag("shift-huge");
				}
				else sh = t.pick(N + 131);
				if(sh >= 64) big_shift = true;
				if(sh >= N) c.tag("shift>=N");
				if(op == 16) { c.op("%s <<= %zu", w, sh); f <<= sh; r <<= sh; }
				else if(op == 17) { c.op("%s >>= %zu", w, sh); f >>= sh; r >>= sh; }
				else if(op == 18) { c.op("other = %s << %zu", w, sh); of = f << sh; orr = r << sh; }
				else { c.op("other = %s >> %zu", w, sh); of = f >> sh; orr = r >> sh; }
				if(N > 64 && r.any()) multiword_nonzero = true;
				break; }
			case 20: { c.op("a == b"); bool eq = *fa == *fb; VCHECK(c, "C18", eq == (ra == rb), "bitset<%zu>: a == b is %d, std %d", N, (int)eq, (int)(ra == rb)); break; }
			case 21: c.op("%s = a & b", w); f = *fa & *fb; r = ra & rb; break;
			case 22: c.op("%s = a | b", w); f = *fa | *fb; r = ra | rb; break;
			default: c.op("%s = a ^ b", w); f = *fa ^ *fb; r = ra ^ rb; break;
			}
			compare(c, *fa, ra, "the operation (a)");
			compare(c, *fb, rb, "the operation (b)");
			canaries(c, rawa, "a"); canaries(c, rawb, "b");
			c.check_san("C18");
		}
		c.nontrivial = big_shift || (N > 64 && multiword_nonzero);
		c.tagf("bitset-%zu", N);
	}
};

template<size_t... Ns>
void dispatch_bitset(Ctx &c, unsigned which, std::index_sequence<Ns...>) {
	unsigned k = 0;
	((which == k++ ? BitRunner<Ns>::run(c) : void()), ...);
}
using BitNs = std::index_sequence<1, 2, 7, 8, 31, 32, 33, 63, 64, 65, 100, 127, 128, 129, 191, 192, 193, 255, 256, 257, 300>;
constexpr unsigned NBITN = 21;

// ------------------------------------------------------------------------------------------
template<size_t N>
void run_array(Ctx &c) {
	auto &t = c.t;
	using FA = frg::array<int, N>; using SA = std::array<int, N>;
	// heap-allocated at exact size: one element past the end is an ASan redzone
	FA *fa = (FA *)malloc(sizeof(FA)), *fb = (FA *)malloc(sizeof(FA));
	c.arena.push_back({fa, nullptr}); c.arena.push_back({fb, nullptr});
	SA sa, sb;
	for(size_t i = 0; i < N; i++) { sa[i] = (int)t.pick(4); sb[i] = (int)t.pick(4); (*fa)[i] = sa[i]; (*fb)[i] = sb[i]; }
	c.op("array<int,%zu> a=%d.. b=%d..", N, sa[0], sb[0]);
	const FA &cfa = *fa;
	VCHECK(c, "C18", fa->front() == sa.front() && cfa.front() == sa.front() && &fa->front() == &(*fa)[0], "array<%zu>::front() is %d, std %d", N, fa->front(), sa.front());
	c.check_san("C18");
	int bk = fa->back();
	c.check_san("C18");
	VCHECK(c, "C18", bk == sa.back() && cfa.back() == sa.back() && &fa->back() == &(*fa)[N - 1], "array<%zu>::back() is %d, std %d", N, bk, sa.back());
	size_t n = 0;
	for(int x : *fa) { VCHECK(c, "C18", n < N && x == sa[n], "array iteration position %zu", n); n++; }
	VCHECK(c, "C18", n == N && fa->end() - fa->begin() == (ptrdiff_t)N && cfa.cend() - cfa.cbegin() == (ptrdiff_t)N && fa->data() == fa->begin(), "array iteration bounds");
	VCHECK(c, "C18", fa->size() == N && fa->max_size() == N && !fa->empty(), "array size");
	VCHECK(c, "C18", (*fa == *fb) == (sa == sb), "array ==");
	VCHECK(c, "C18", frg::get<0>(*fa) == sa[0] && frg::get<N - 1>(cfa) == sa[N - 1], "get<I>");
	swap(*fa, *fb); std::swap(sa, sb);
	for(size_t i = 0; i < N; i++) VCHECK(c, "C18", (*fa)[i] == sa[i] && (*fb)[i] == sb[i], "array swap at %zu", i);
	auto cat2 = frg::array_concat<int>(*fa, *fb);
	for(size_t i = 0; i < 2 * N; i++) VCHECK(c, "C18", cat2[i] == (i < N ? sa[i] : sb[i - N]), "array_concat of two at %zu", i);
	frg::array<int, 2> extra{7, 9};
	auto cat3 = frg::array_concat<int>(*fb, extra, *fa);
	VCHECK(c, "C18", cat3.size() == 2 * N + 2, "array_concat of three: size");
	for(size_t i = 0; i < 2 * N + 2; i++) { int e = i < N ? sb[i] : i < N + 2 ? (i == N ? 7 : 9) : sa[i - N - 2]; VCHECK(c, "C18", cat3[i] == e, "array_concat of three at %zu", i); }
	c.check_san("C18");
	c.nontrivial = true;
	c.tag("array");
}

// arrays of elements with observable move (strings longer than the small-string buffer): concatenation copies from lvalue
// arguments, the same array may be passed more than once and the inputs stay as they were
void run_array_strings(Ctx &c) {
	auto &t = c.t;
	auto mk = [&](int k) { return std::string(24 + (size_t)t.pick(8), (char)('a' + k)); };
	frg::array<std::string, 2> a{mk(0), mk(1)}; frg::array<std::string, 1> b{mk(2)};
	const frg::array<std::string, 2> a0 = a; const frg::array<std::string, 1> b0 = b;
	c.op("array_concat<string>(a, b, a) with non-const lvalue arrays");
	c.tag("array-concat-lvalue-strings");
	auto r = frg::array_concat<std::string>(a, b, a);
	VCHECK(c, "C18", r.size() == 5 && r[0] == a0[0] && r[1] == a0[1] && r[2] == b0[0] && r[3] == a0[0] && r[4] == a0[1], "array_concat(a, b, a) is {%zu,%zu,%zu,%zu,%zu} characters long, expected the elements of a, b, a", r[0].size(), r[1].size(), r[2].size(), r[3].size(), r[4].size());
	VCHECK(c, "C18", a[0] == a0[0] && a[1] == a0[1] && b[0] == b0[0], "array_concat changed its lvalue arguments (their elements were moved from)");
	auto r2 = frg::array_concat<std::string>(a0, b0);      // const lvalues
	VCHECK(c, "C18", r2.size() == 3 && r2[0] == a0[0] && r2[2] == b0[0], "array_concat of const arrays");
	frg::array<std::string, 2> tmp = a0;
	auto r3 = frg::array_concat<std::string>(std::move(tmp), b);      // an rvalue argument may be moved from, the result is the same
	VCHECK(c, "C18", r3.size() == 3 && r3[0] == a0[0] && r3[1] == a0[1] && r3[2] == b0[0] && b[0] == b0[0], "array_concat with an rvalue argument");
	c.check_san("C18");
	c.nontrivial = true;
}

// arrays of floating-point elements: == is element-wise (+0 == -0, NaN != NaN), as for std::array
void run_array_fp(Ctx &c) {
	auto &t = c.t;
	static const double pool[] = {0.0, -0.0, 1.0, -1.0, __builtin_nan(""), 1e300, 2.5};
	frg::array<double, 3> fa, fb; std::array<double, 3> sa, sb;
	for(int i = 0; i < 3; i++) { sa[i] = pool[t.pick(7)]; sb[i] = t.pick(3) ? sa[i] : pool[t.pick(7)]; if(t.pick(4) == 0 && sa[i] == 0.0) sb[i] = -sa[i]; fa[i] = sa[i]; fb[i] = sb[i]; }
	c.op("array<double,3> a=(%g,%g,%g) b=(%g,%g,%g)", sa[0], sa[1], sa[2], sb[0], sb[1], sb[2]);
	VCHECK(c, "C18", (fa == fb) == (sa == sb) && (fa != fb) == (sa != sb), "array<double,3>: a == b is %d, std::array gives %d", (int)(fa == fb), (int)(sa == sb));
	VCHECK(c, "C18", (fa == fa) == (sa == sa), "array<double,3>: a == a is %d, std::array gives %d", (int)(fa == fa), (int)(sa == sa));
	frg::array<float, 2> ga{(float)sa[0], (float)sa[1]}, gb{(float)sb[0], (float)sb[1]}; std::array<float, 2> ha{(float)sa[0], (float)sa[1]}, hb{(float)sb[0], (float)sb[1]};
	VCHECK(c, "C18", (ga == gb) == (ha == hb), "array<float,2>: == differs from std::array");
	c.nontrivial = true;
	c.tag("array-floating-point");
}

// ------------------------------------------------------------------------------------------
struct RefPcg {   // the published pcg32 algorithm (pcg-c-basic), written independently
	uint64_t state, inc;
	RefPcg(uint64_t seed, uint64_t seq) { state = 0; inc = (seq << 1u) | 1u; next(); state += seed; next(); }
	uint32_t next() { uint64_t old = state; state = old * 6364136223846793005ULL + inc; uint32_t xs = (uint32_t)(((old >> 18u) ^ old) >> 27u); uint32_t rot = (uint32_t)(old >> 59u); return (xs >> rot) | (xs << ((32 - rot) & 31)); }
	uint32_t bounded(uint32_t bound) { uint32_t threshold = (0u - bound) % bound; for(;;) { uint32_t r = next(); if(r >= threshold) return r % bound; } }
};

void run_prng(Ctx &c) {
	auto &t = c.t;
	if(t.flip()) {
		static const uint32_t seeds[] = {0, 1, 5489, 0xffffffffu, 0x80000000u};
		bool dflt = t.pick(8) == 0;
		uint32_t seed = t.pick(3) == 0 ? seeds[t.pick(5)] : t.next();
		frg::mt19937 *f = dflt ? c.make<frg::mt19937>() : c.make<frg::mt19937>();
		std::mt19937 r(dflt ? 5489u : seed);
		if(!dflt) f->seed(seed);
		c.op("mt19937 seed %u%s", dflt ? 5489u : seed, dflt ? " (default)" : "");
		unsigned n = 1900 + t.pick(400);
		unsigned reseed_at = t.pick(2) ? t.pick(n) : n + 1;
		for(unsigned i = 0; i < n; i++) {
			if(i == reseed_at) { uint32_t s2 = t.next(); c.op("re-seed %u at draw %u", s2, i); f->seed(s2); r.seed(s2); }
			uint32_t a = (*f)(), b = (uint32_t)r();
			VCHECK(c, "C18", a == b, "mt19937 draw %u is %u, std::mt19937 gives %u", i, a, b);
		}
		c.tag("mt19937");
	} else {
		uint64_t seed = t.pick(4) == 0 ? 42 : t.next64(), seq = t.pick(4) == 0 ? 54 : (t.pick(3) == 0 ? 1 : t.next64());
		bool dseq = t.pick(5) == 0;
		// Crafted seeds: the first raw output is chosen (the generator is run backwards through the seeding sequence), so that the
		// first bounded draw meets the rejection threshold 2^32 mod bound exactly, or one below / above it. A random seed does
		// that with probability 2^-32 per draw.
		uint32_t crafted_bound = 0;
		if(t.pick(3) == 0) {
			static const uint32_t cb[] = {2, 3, 5, 6, 7, 1000, 0x7fffffffu, 0x80000001u, 0xfffffffbu, 3000000000u, 10, 100};
			crafted_bound = t.pick(4) ? cb[t.pick(12)] : 2 + t.next() % 0xfffffffdu;
			uint32_t threshold = (0u - crafted_bound) % crafted_bound;
			uint32_t want = threshold + (uint32_t)t.pick(3) - 1;          // threshold-1, threshold, threshold+1
			// a state whose output is `want`: rotation 0 (top five bits clear), then solve xs = ((old >> 18) ^ old) >> 27 from the top bit down
			uint64_t old = 0;
			for(int i = 58; i >= 27; i--) { uint64_t hi = i + 18 <= 63 ? (old >> (i + 18)) & 1 : 0; uint64_t bit = ((uint64_t)(want >> (i - 27)) & 1) ^ hi; old |= bit << i; }
			old |= t.next64() & ((uint64_t(1) << 27) - 1);                     // the low 27 bits do not reach the output
			if(dseq) seq = 1;
			uint64_t inc = (seq << 1u) | 1u;
			// seeding: state = ((0 * M + inc) + seed) * M + inc  =>  seed = (old - inc) * M^-1 - inc
			uint64_t M = 6364136223846793005ULL, Minv = 1; for(int k = 0; k < 6; k++) Minv *= 2 - M * Minv;
			seed = (old - inc) * Minv - inc;
			c.tag("pcg-crafted-threshold");
		}
		frg::pcg_basic32 f = dseq ? frg::pcg_basic32(seed) : frg::pcg_basic32(seed, seq);
		RefPcg r(seed, dseq ? 1 : seq);
		c.op("pcg32 seed %#llx seq %#llx", (unsigned long long)seed, (unsigned long long)(dseq ? 1 : seq));
		if(seed == 42 && seq == 54 && !dseq) {
			static const uint32_t kat[] = {0xa15c02b7u, 0x7b47f409u, 0xba1d3330u, 0x83d2f293u, 0xbfa4784bu, 0xcbed606eu};
			frg::pcg_basic32 k(42, 54);
			for(uint32_t e : kat) { uint32_t g = k(); VCHECK(c, "C18", g == e, "pcg32(42,54) known-answer: got %#x, published %#x", g, e); }
			c.tag("pcg-known-answer");
		}
		unsigned n = 20 + t.pick(200);
		if(crafted_bound) { uint32_t a = f(crafted_bound), b = r.bounded(crafted_bound); c.op("first bounded draw with bound %u meets the rejection threshold", crafted_bound);
			VCHECK(c, "C18", a == b, "pcg32(%u): the draw whose raw value lies at the rejection threshold is %u, reference %u", crafted_bound, a, b); }
		for(unsigned i = 0; i < n; i++) {
			unsigned how = t.pick(4);
			if(how == 0) { uint32_t a = f(), b = r.next(); VCHECK(c, "C18", a == b, "pcg32 draw %u is %#x, reference %#x", i, a, b); }
			else {
				static const uint32_t bounds[] = {1, 2, 3, 0x80000000u, 0xffffffffu, 0x80000001u, 6, 1000};
				uint32_t bound = how == 1 ? bounds[t.pick(8)] : 1 + t.next() % 0xffffffffu;
				uint32_t a = f(bound), b = r.bounded(bound);
				VCHECK(c, "C18", a < bound, "pcg32(%u) returned %u, outside [0, bound)", bound, a);
				VCHECK(c, "C18", a == b, "pcg32(%u) draw %u is %u, reference %u", bound, i, a, b);
			}
		}
		if(t.flip()) { uint64_t s2 = t.next64(); f.seed(s2); RefPcg r2(s2, 1); for(int i = 0; i < 8; i++) VCHECK(c, "C18", f() == r2.next(), "pcg32 after re-seed"); c.tag("pcg-reseed"); }
		c.tag("pcg32");
	}
	c.check_san("C18");
	c.nontrivial = true;
}

// ------------------------------------------------------------------------------------------
struct Item { int v; int tag; };
void run_sort(Ctx &c) {
	auto &t = c.t;
	unsigned n = t.pick(4) ? t.pick(7) : t.pick(60);
	unsigned cmp = t.pick(3);
	unsigned range = t.pick(2) ? 3 : 1000;
	std::vector<Item> in;
	for(unsigned i = 0; i < n; i++) in.push_back({(int)t.pick(range), (int)i});
	std::string d; for(auto &x : in) d += std::to_string(x.v) + ",";
	c.op("insertion_sort cmp %u [%s]", cmp, d.c_str());
	// exact-size heap array
	Item *arr = (Item *)malloc(sizeof(Item) * n);
	c.arena.push_back({arr, nullptr});
	for(unsigned i = 0; i < n; i++) arr[i] = in[i];
	auto comp = [cmp](const Item &a, const Item &b) { return cmp == 0 ? a.v < b.v : cmp == 1 ? a.v > b.v : a.v / 2 < b.v / 2; };
	frg::insertion_sort(arr, arr + n, comp);
	c.check_san("C18");
	std::vector<int> seen(n, 0);
	for(unsigned i = 0; i < n; i++) {
		VCHECK(c, "C18", arr[i].tag >= 0 && arr[i].tag < (int)n && !seen[arr[i].tag] && in[arr[i].tag].v == arr[i].v, "insertion_sort: output element %u (%d,#%d) is not an unused input element: not a permutation", i, arr[i].v, arr[i].tag);
		seen[arr[i].tag] = 1;
	}
	for(unsigned i = 0; i < n; i++) for(unsigned j = i + 1; j < n; j++)
		VCHECK(c, "C18", !comp(arr[i], arr[j]), "insertion_sort: comp(out[%u]=%d, out[%u]=%d) holds", i, arr[i].v, j, arr[j].v);
	c.nontrivial = n >= 2;
	c.tag("sort");
}

} // namespace

void verif_case(Ctx &c) {
	unsigned kind = c.t.pick(8);
	if(kind <= 4) dispatch_bitset(c, c.t.pick(NBITN), BitNs{});
	else if(kind == 5) { switch(c.t.pick(6)) { case 5: run_array_strings(c); break; case 4: run_array_fp(c); break; case 0: run_array<1>(c); break; case 1: run_array<2>(c); break; case 2: run_array<3>(c); break; default: run_array<8>(c); break; } }
	else if(kind == 6) run_prng(c);
	else run_sort(c);
}

void verif_enum(Enum &e) {
	// all arrays over {0,1,2} up to length 6, three comparators (range choice 1 -> 3 values)
	uint64_t n = 0;
	for(uint32_t len = 0; len <= 6; len++) {
		uint32_t total = 1; for(uint32_t i = 0; i < len; i++) total *= 3;
		for(uint32_t code = 0; code < total; code++) for(uint32_t cmp = 0; cmp < 3; cmp++) {
			std::vector<uint32_t> tape{7, 1, len, cmp, 1};
			uint32_t x = code; for(uint32_t i = 0; i < len; i++) { tape.push_back(x % 3); x /= 3; }
			if(!e.run(tape)) return;
			n++;
		}
	}
	e.scope("insertion_sort: all arrays over {0,1,2} of length <= 6 x 3 comparators", n);
}
