// C15 (strings and views denote exactly their character sequence, in bounds) and the string
// part of C16.  Subjects: frg::basic_string<char, track_alloc>, frg::basic_string_view<char>.
//
// Source buffers are exact-size heap blocks (ASan redzone right behind the last byte), the
// string's own buffer is allocated by track_alloc with exactly the requested size.
//
// Preconditions respected by the generator:
//   C-string constructors / compare(const char*) only get NUL-terminated sources
//   sub_string(from, len) only with from + len <= size (asserted by the code)
//   to_number<T>: value checked only for non-empty digit strings that fit T; for strings that
//     contain a byte outside [0-9+-] the documented "no number" answer (null_opt) is required
//   resize(n) keeps the prefix; bytes beyond the old length are unspecified (re-read)
//   compare(): 0 iff equal, antisymmetric, sign determined only where length-first and
//     lexicographic order agree (equal lengths, or one a proper prefix of the other)
//   data() of a default-constructed string is null: the terminator clause applies to non-null data()
#include <string>
#include <string_view>
#include <vector>
#include <sys/mman.h>
#include <cstring>
#include <frg/string.hpp>
#include "../engine/verif.hpp"
#include "../engine/track.hpp"

const char *verif_harness = "string_seq";
using namespace verif;

void verif_case_reset() { reg().reset(); }

namespace {
using Str = frg::basic_string<char, track_alloc>;
using View = frg::basic_string_view<char>;

std::string show(const std::string &s) {
	std::string o = "\"";
	for(unsigned char ch : s) { if(ch == 0) o += "\\0"; else if(ch >= 0x20 && ch < 0x7f && ch != '"' && ch != '\\') o += (char)ch; else { char b[8]; snprintf(b, sizeof b, "\\x%02x", ch); o += b; } }
	return o + "\"";
}

// exact-size copy of s (no terminator) / with terminator
const char *exact(Ctx &c, const std::string &s, bool terminated = false) {
	size_t n = s.size() + (terminated ? 1 : 0);
	char *p = (char *)malloc(n);          // malloc(0) is a valid pointer with no accessible byte
	c.arena.push_back({p, nullptr});
	if(!s.empty()) memcpy(p, s.data(), s.size());
	if(terminated) p[s.size()] = 0;
	return p;
}

int sgn(int x) { return (x > 0) - (x < 0); }

void check_owned(Ctx &c, Str &s, const std::string &ref, const char *what) {
	const Str &cs = s;
	VCHECK(c, "C15", s.size() == ref.size(), "%s: size() is %zu, reference %zu", what, s.size(), ref.size());
	VCHECK(c, "C15", s.empty() == ref.empty(), "%s: empty() is %d for size %zu", what, (int)s.empty(), ref.size());
	if(s.data()) {
		VCHECK(c, "C15", memcmp(s.data(), ref.data(), ref.size()) == 0, "%s: contents are %s, reference %s", what, show(std::string(s.data(), s.size())).c_str(), show(ref).c_str());
		VCHECK(c, "C15", s.data()[s.size()] == 0, "%s: data()[size()] is %d, not the terminator", what, s.data()[s.size()]);
		VCHECK(c, "C15", cs.data() == s.data() && s.begin() == s.data() && s.end() == s.data() + ref.size() && cs.end() - cs.begin() == (ptrdiff_t)ref.size(), "%s: begin/end/data disagree", what);
		for(size_t i = 0; i < ref.size(); i++) VCHECK(c, "C15", s[i] == ref[i] && cs[i] == ref[i], "%s: operator[](%zu) differs", what, i);
	} else VCHECK(c, "C15", ref.empty(), "%s: data() is null for a string of %zu characters", what, ref.size());
	View v = s;
	VCHECK(c, "C15", v.size() == ref.size() && v.data() == s.data(), "%s: conversion to string_view yields another range", what);
	if(!ref.empty()) VCHECK(c, "C15", !(v.sub_string(0, ref.size() - 1) == v) && v.sub_string(0, ref.size()) == v, "%s: a prefix view of the string compares equal to the whole string", what);
}

void view_battery(Ctx &c, const std::string &A, const std::string &B) {
	View va(exact(c, A), A.size()), vb(exact(c, B), B.size());
	std::string_view ra(A), rb(B);
	VCHECK(c, "C15", va.size() == A.size(), "view size");
	for(size_t i = 0; i < A.size(); i++) VCHECK(c, "C15", va[i] == A[i], "view[%zu] differs", i);
	VCHECK(c, "C15", (va == vb) == (A == B), "view %s == %s gives %d", show(A).c_str(), show(B).c_str(), (int)(va == vb));
	VCHECK(c, "C15", (vb == va) == (A == B), "view == is not symmetric");
	std::string probe = "ab";
	probe.push_back('\0'); probe.push_back('x');
	if(!A.empty()) probe.push_back(A[A.size() / 2]);
	if(!B.empty()) probe.push_back(B[0]);
	for(char ch : probe) {
		for(size_t start = 0; start <= A.size() + 1; start++) {
			size_t got = va.find_first(ch, start), exp = ra.find(ch, start);
			VCHECK(c, "C15", got == exp, "%s.find_first(%d, %zu) is %zd, reference %zd", show(A).c_str(), ch, start, (ssize_t)got, (ssize_t)exp);
		}
		VCHECK(c, "C15", va.find_first(ch) == ra.find(ch), "%s.find_first(%d) differs", show(A).c_str(), ch);
		// start positions far beyond the end (a previous "not found" result passed back in, and values at which pointer arithmetic wraps)
		for(size_t start : {size_t(-1), size_t(-2), size_t(-3), size_t(-1) / 2, size_t(-1) / 2 + 1, size_t(-1) / 4 + 1, A.size() + 2, (size_t(1) << 32) + 1}) {
			size_t got = va.find_first(ch, start);
			VCHECK(c, "C15", got == size_t(-1), "%s.find_first(%d, %zu) is %zd although the start position lies beyond the end", show(A).c_str(), ch, start, (ssize_t)got);
		}
		size_t got = va.find_last(ch), exp = ra.rfind(ch);
		VCHECK(c, "C15", got == exp, "%s.find_last(%d) is %zd, reference %zd", show(A).c_str(), ch, (ssize_t)got, (ssize_t)exp);
	}
	for(size_t start : {size_t(-1), size_t(-2), size_t(-1) / 2 + 1, A.size() + 2})
		VCHECK(c, "C15", va.find_first_of(vb, start) == size_t(-1), "%s.find_first_of(%s, %zu) finds something beyond the end", show(A).c_str(), show(B).c_str(), start);
	for(size_t start = 0; start <= A.size() + 1; start++) {
		size_t got = va.find_first_of(vb, start), exp = ra.find_first_of(rb, start);
		VCHECK(c, "C15", got == exp, "%s.find_first_of(%s, %zu) is %zd, reference %zd", show(A).c_str(), show(B).c_str(), start, (ssize_t)got, (ssize_t)exp);
	}
	VCHECK(c, "C15", va.find_first_of(vb) == ra.find_first_of(rb), "find_first_of default start differs");
	for(size_t from = 0; from <= A.size(); from++)
		for(size_t len = 0; from + len <= A.size(); len++) {
			View sub = va.sub_string(from, len);
			VCHECK(c, "C15", sub.data() == va.data() + from && sub.size() == len, "%s.sub_string(%zu,%zu) yields another range", show(A).c_str(), from, len);
		}
	// views into the same buffer (prefixes, suffixes, inner ranges of one string) compare by content
	for(size_t from = 0; from <= A.size(); from++)
		for(size_t len = 0; from + len <= A.size(); len++) {
			View sub = va.sub_string(from, len);
			bool exp_full = ra.substr(from, len) == ra;
			VCHECK(c, "C15", (sub == va) == exp_full && (va == sub) == exp_full, "%s.sub_string(%zu,%zu) == the whole view gives %d, reference %d", show(A).c_str(), from, len, (int)(sub == va), (int)exp_full);
			if(len >= 1) { View shorter = va.sub_string(from, len - 1); bool e2 = ra.substr(from, len) == ra.substr(from, len - 1); VCHECK(c, "C15", (sub == shorter) == e2, "a view equals its own proper prefix"); }
		}
	bool sw = ra.substr(0, std::min(B.size(), A.size())) == rb, ew = A.size() >= B.size() && ra.substr(A.size() - B.size()) == rb;
	VCHECK(c, "C15", va.starts_with(vb) == sw, "%s.starts_with(%s) is %d", show(A).c_str(), show(B).c_str(), (int)va.starts_with(vb));
	VCHECK(c, "C15", va.ends_with(vb) == ew, "%s.ends_with(%s) is %d", show(A).c_str(), show(B).c_str(), (int)va.ends_with(vb));
	unsigned ha = frg::hash<View>{}(va), hb = frg::hash<View>{}(vb);
	if(A == B) VCHECK(c, "C15", ha == hb, "equal views hash differently");
	c.check_san("C15");
}

// decimal rendering of an unsigned 128-bit value
std::string dec128(unsigned __int128 v) { if(!v) return "0"; std::string s; while(v) { s.insert(s.begin(), char('0' + (int)(v % 10))); v /= 10; } return s; }
template<typename T>
void number_type_checks(Ctx &c, const std::string &A, bool digits, unsigned __int128 value, bool fits128, const char *tname) {
	constexpr unsigned __int128 tmax = std::is_signed_v<T> ? (unsigned __int128)(~(unsigned __int128)0 >> (129 - 8 * sizeof(T))) : (unsigned __int128)(~(unsigned __int128)0 >> (128 - 8 * sizeof(T)));
	// the generated digit string, when it fits
	if(digits && fits128 && value <= tmax) {
		frg::string_view va(exact(c, A), A.size());
		auto r = va.to_number<T>();
		VCHECK(c, "C15", r && (unsigned __int128)*r == value, "to_number<%s>(%s) is %s although the value fits", tname, A.c_str(), r ? "another value" : "null_opt");
	}
	// the boundary values of the type: max, max-1, max/10, max/10+1, with and without leading zeros
	for(unsigned __int128 v : {tmax, tmax - 1, tmax / 10, tmax / 10 + 1, (unsigned __int128)0, (unsigned __int128)9}) {
		for(int zeros = 0; zeros < 2; zeros++) {
			std::string d = std::string(zeros ? 2 : 0, '0') + dec128(v);
			frg::string_view vv(exact(c, d), d.size());
			auto r = vv.to_number<T>();
			VCHECK(c, "C15", r && (unsigned __int128)*r == v, "to_number<%s>(%s) is %s although the value fits (the largest value of the type is %s)", tname, d.c_str(), r ? "another value" : "null_opt", dec128(tmax).c_str());
		}
	}
}
void number_checks(Ctx &c, const std::string &A) {
	{
		bool digits = !A.empty() && A.size() <= 38; unsigned __int128 value = 0;
		for(unsigned char ch : A) { if(ch < '0' || ch > '9') { digits = false; break; } value = value * 10 + (ch - '0'); }
		bool fits128 = digits;       // <= 38 digits always fit into 128 bits
		number_type_checks<int8_t>(c, A, digits, value, fits128, "int8_t"); number_type_checks<uint8_t>(c, A, digits, value, fits128, "uint8_t");
		number_type_checks<int16_t>(c, A, digits, value, fits128, "int16_t"); number_type_checks<uint16_t>(c, A, digits, value, fits128, "uint16_t");
		number_type_checks<int32_t>(c, A, digits, value, fits128, "int32_t"); number_type_checks<uint32_t>(c, A, digits, value, fits128, "uint32_t");
		number_type_checks<int64_t>(c, A, digits, value, fits128, "int64_t"); number_type_checks<uint64_t>(c, A, digits, value, fits128, "uint64_t");
		number_type_checks<long long>(c, A, digits, value, fits128, "long long"); number_type_checks<unsigned long long>(c, A, digits, value, fits128, "unsigned long long");
		number_type_checks<__int128>(c, A, digits, value, fits128, "__int128"); number_type_checks<unsigned __int128>(c, A, digits, value, fits128, "unsigned __int128");
		c.tag("to_number-all-types");
	}
	View va(exact(c, A), A.size());
	bool digits = !A.empty(), foreign = false;
	for(unsigned char ch : A) { if(ch < '0' || ch > '9') { digits = false; if(ch != '+' && ch != '-') foreign = true; } }
	if(digits && A.size() <= 19) {
		unsigned long long v = strtoull(A.c_str(), nullptr, 10);
		auto r64 = va.to_number<uint64_t>();
		VCHECK(c, "C15", r64 && *r64 == v, "to_number<uint64_t>(%s) is %llu", A.c_str(), r64 ? (unsigned long long)*r64 : 0ull);
		if(v <= 0xFFFFFFFFull) { auto r = va.to_number<unsigned>(); VCHECK(c, "C15", r && *r == v, "to_number<unsigned>(%s) is %u", A.c_str(), r ? *r : 0u); }
		if(v <= 0x7FFFFFFFull) { auto r = va.to_number<int>(); VCHECK(c, "C15", r && (unsigned long long)*r == v, "to_number<int>(%s) is %d", A.c_str(), r ? *r : 0); }
		if(v <= 0x7FFFFFFFFFFFFFFFull) { auto r = va.to_number<long>(); VCHECK(c, "C15", r && (unsigned long long)*r == v, "to_number<long>(%s) is %ld", A.c_str(), r ? *r : 0l); }
		c.tag("to_number-digits");
	} else if(foreign && A.size() <= 9) {
		VCHECK(c, "C15", !va.to_number<uint64_t>() && !va.to_number<int>(), "to_number(%s) yields a number for a string that is not a digit string", show(A).c_str());
		c.tag("to_number-nondigit");
	}
	c.check_san("C15");
}

void string_battery(Ctx &c, const std::string &A, const std::string &B) {
	Str *sa = c.make<Str>(exact(c, A), A.size(), track_alloc{});
	Str *sb = c.make<Str>(exact(c, B), B.size(), track_alloc{});
	check_owned(c, *sa, A, "string(ptr,len)");
	check_owned(c, *sb, B, "string(ptr,len)");
	View vb(exact(c, B), B.size());
	{ Str *sv = c.make<Str>(vb, track_alloc{}); check_owned(c, *sv, B, "string(view)"); c.check_san("C15"); c.destroy(sv); }
	{ Str *sv = c.make<Str>(track_alloc{}, vb); check_owned(c, *sv, B, "string(alloc, view)"); c.destroy(sv); }
	if(B.find('\0') == std::string::npos) {
		Str *sc = c.make<Str>(exact(c, B, true), track_alloc{});
		check_owned(c, *sc, B, "string(cstr)");
		int cmp = sa->compare(exact(c, B, true));
		VCHECK(c, "C15", (cmp == 0) == (A == B), "%s.compare(cstr %s) is %d", show(A).c_str(), show(B).c_str(), cmp);
		VCHECK(c, "C15", sgn(cmp) == sgn(sa->compare(*sb)), "compare(cstr) and compare(string) disagree for %s / %s", show(A).c_str(), show(B).c_str());
		VCHECK(c, "C15", (*sa == exact(c, B, true)) == (A == B), "%s == cstr %s differs", show(A).c_str(), show(B).c_str());
		c.destroy(sc);
	}
	int ab = sa->compare(*sb), ba = sb->compare(*sa);
	VCHECK(c, "C15", (ab == 0) == (A == B) && (ba == 0) == (A == B), "%s.compare(%s) is %d", show(A).c_str(), show(B).c_str(), ab);
	VCHECK(c, "C15", sgn(ab) == -sgn(ba), "compare is not antisymmetric: %d / %d", ab, ba);
	VCHECK(c, "C15", ab >= -1 && ab <= 1, "compare returned %d", ab);
	if(A.size() == B.size() && A != B) { size_t i = 0; while(A[i] == B[i]) i++; VCHECK(c, "C15", sgn(ab) == (A[i] < B[i] ? -1 : 1), "%s.compare(%s) is %d", show(A).c_str(), show(B).c_str(), ab); }
	if(A.size() < B.size() && B.compare(0, A.size(), A) == 0) VCHECK(c, "C15", ab < 0, "proper prefix %s compares %d to %s", show(A).c_str(), ab, show(B).c_str());
	VCHECK(c, "C15", (*sa == *sb) == (A == B), "%s == %s is %d", show(A).c_str(), show(B).c_str(), (int)(*sa == *sb));
	{ Str *cat = c.make<Str>(*sa + vb); check_owned(c, *cat, A + B, "a + view"); check_owned(c, *sa, A, "a after a + view"); c.destroy(cat); }
	for(char ch : {'a', '\0', 'z'}) { Str *cat = c.make<Str>(*sa + ch); check_owned(c, *cat, A + ch, "a + char"); c.destroy(cat); }
	{ Str *cp = c.make<Str>(*sa); *cp += vb; check_owned(c, *cp, A + B, "a += view"); *cp += 'q'; check_owned(c, *cp, A + B + 'q', "a += char"); cp->push_back('\0'); check_owned(c, *cp, A + B + 'q' + '\0', "push_back");
		*cp += View(*cp); std::string d = A + B + 'q' + '\0'; check_owned(c, *cp, d + d, "a += view of itself"); c.destroy(cp); }
	for(size_t n = 0; n <= A.size() + 2; n++) {
		Str *cp = c.make<Str>(*sa); cp->resize(n);
		std::string exp = A.substr(0, std::min(n, A.size()));
		VCHECK(c, "C15", cp->size() == n, "resize(%zu): size() is %zu", n, cp->size());
		VCHECK(c, "C15", memcmp(cp->data(), exp.data(), exp.size()) == 0, "resize(%zu) of %s does not keep the prefix", n, show(A).c_str());
		VCHECK(c, "C15", cp->data()[n] == 0, "resize(%zu): no terminator", n);
		c.destroy(cp);
	}
	{ Str *cp = c.make<Str>(*sa); *cp = *sb; check_owned(c, *cp, B, "assignment"); *cp = *cp; check_owned(c, *cp, B, "self-assignment"); swap(*cp, *sa); check_owned(c, *cp, A, "swap"); check_owned(c, *sa, B, "swap"); swap(*cp, *sa); c.destroy(cp); }
	bool sw = A.compare(0, std::min(B.size(), A.size()), B) == 0 && B.size() <= A.size(), ew = A.size() >= B.size() && A.compare(A.size() - B.size(), B.size(), B) == 0;
	VCHECK(c, "C15", sa->starts_with(vb) == sw, "string %s.starts_with(%s) is %d", show(A).c_str(), show(B).c_str(), (int)sa->starts_with(vb));
	VCHECK(c, "C15", sa->ends_with(vb) == ew, "string %s.ends_with(%s) is %d", show(A).c_str(), show(B).c_str(), (int)sa->ends_with(vb));
	unsigned hs = frg::hash<Str>{}(*sa), hv = frg::hash<View>{}(View(exact(c, A), A.size()));
	VCHECK(c, "C15", hs == hv, "hash of owned %s (%u) differs from the hash of an equal view (%u)", show(A).c_str(), hs, hv);
	if(A == B) VCHECK(c, "C15", hs == frg::hash<Str>{}(*sb), "equal strings hash differently");
	{ Str *fill = c.make<Str>(A.size(), 'k', track_alloc{}); check_owned(c, *fill, std::string(A.size(), 'k'), "string(n, c)"); c.destroy(fill); }
	{ View nullv; Str *sn = c.make<Str>(nullv, track_alloc{}); check_owned(c, *sn, "", "string(null view)"); *sn += vb; check_owned(c, *sn, B, "string(null view) += view"); c.destroy(sn);
	  Str *sn2 = c.make<Str>(track_alloc{}, nullv); check_owned(c, *sn2, "", "string(alloc, null view)"); sn2->resize(2); c.destroy(sn2);
	  Str *sn3 = c.make<Str>((const char *)nullptr, (size_t)0, track_alloc{}); check_owned(c, *sn3, "", "string(nullptr, 0)"); c.destroy(sn3); }
	{ Str *def = c.make<Str>(track_alloc{}); check_owned(c, *def, "", "string()"); Str *cp = c.make<Str>(*def); check_owned(c, *cp, "", "copy of string()"); *def += vb; check_owned(c, *def, B, "string() += view"); c.destroy(cp); c.destroy(def); }
	c.check_san("C15");
	VTRACK_POLL(c);
	c.destroy(sa); c.destroy(sb);
}

std::string gen_bytes(Ctx &c) {
	auto &t = c.t;
	unsigned mode = t.pick(5);
	std::string s;
	if(mode <= 1) { unsigned n = t.pick(4); for(unsigned i = 0; i < n; i++) s.push_back("ab\0"[t.pick(3)]); }      // the exhaustive alphabet
	else if(mode == 2) { unsigned n = t.pick(20); for(unsigned i = 0; i < n; i++) s.push_back('0' + t.pick(10)); }     // digits
	else if(mode == 3) { unsigned n = t.pick(12); for(unsigned i = 0; i < n; i++) s.push_back((char)t.pick(256)); }    // arbitrary bytes
	else { unsigned n = t.pick(48); for(unsigned i = 0; i < n; i++) s.push_back("abc"[t.pick(3)]); }                     // longer, low entropy
	return s;
}

void history(Ctx &c) {
	auto &t = c.t;
	constexpr int S = 3;
	Str *slot[S]; std::string ref[S];
	for(int s = 0; s < S; s++) slot[s] = c.make<Str>(track_alloc{s});      // three different pools: a block must go back to the pool it came from
	bool nt = false, released = false;
	unsigned nops = 1 + t.pick(30);
	for(unsigned i = 0; i < nops && !t.done(); i++) {
		int s = t.pick(S), d = t.pick(S);
		switch(t.pick(12)) {
		case 0: { std::string b = gen_bytes(c); c.op("s%d = string(ptr,len %s)", s, show(b).c_str()); if(!ref[s].empty()) released = true; *slot[s] = Str(exact(c, b), b.size(), track_alloc{(s + 1) % 3}); ref[s] = b; break; }
		case 1: { std::string b = gen_bytes(c); b = b.substr(0, b.find('\0')); c.op("s%d = string(cstr %s)", s, show(b).c_str()); *slot[s] = Str(exact(c, b, true), track_alloc{}); ref[s] = b; break; }
		case 2: { std::string b = gen_bytes(c); c.op("s%d = string(view %s)", s, show(b).c_str()); *slot[s] = Str(View(exact(c, b), b.size()), track_alloc{}); ref[s] = b; break; }
		case 3: { c.op("s%d = s%d", d, s); if(!ref[d].empty()) released = true; *slot[d] = *slot[s]; ref[d] = ref[s]; break; }
		case 4: { size_t n = t.pick(3) ? t.pick(8) : t.pick(60); c.op("s%d.resize(%zu)", s, n); slot[s]->resize(n); size_t keep = std::min(n, ref[s].size());
			VCHECK(c, "C15", slot[s]->size() == n && memcmp(slot[s]->data(), ref[s].data(), keep) == 0, "resize(%zu) does not keep the prefix", n);
			ref[s] = std::string(slot[s]->data(), n); if(keep && n != keep) nt = true; break; }
		case 5: { std::string b = gen_bytes(c); c.op("s%d += view %s", s, show(b).c_str()); *slot[s] += View(exact(c, b), b.size()); if(!ref[s].empty() && !b.empty()) nt = true; ref[s] += b; break; }
		case 6: { char ch = (char)t.pick(256); c.op("s%d += char %d", s, ch); if(t.flip()) *slot[s] += ch; else slot[s]->push_back(ch); ref[s] += ch; break; }
		case 7: { c.op("s%d = s%d + view(s%d)", d, s, (d + 1) % S); int o = (d + 1) % S; std::string r = ref[s] + ref[o]; if(!ref[s].empty() && !ref[o].empty()) nt = true; *slot[d] = *slot[s] + View(*slot[o]); ref[d] = r; break; }
		case 8: { char ch = (char)t.pick(256); c.op("s%d = s%d + char %d", d, s, ch); std::string r = ref[s] + ch; *slot[d] = *slot[s] + ch; ref[d] = r; break; }
		case 9: { c.op("swap(s%d, s%d)", s, d); swap(*slot[s], *slot[d]); std::swap(ref[s], ref[d]); break; }
		case 10: { c.op("s%d.compare(s%d)", s, d); int r = slot[s]->compare(*slot[d]); VCHECK(c, "C15", (r == 0) == (ref[s] == ref[d]) && (*slot[s] == *slot[d]) == (ref[s] == ref[d]), "compare is %d, reference equality %d", r, (int)(ref[s] == ref[d]));
			if(ref[s].size() == ref[d].size() && ref[s] != ref[d]) { size_t k = 0; while(ref[s][k] == ref[d][k]) k++; if(k > 0) nt = true; VCHECK(c, "C15", sgn(r) == (ref[s][k] < ref[d][k] ? -1 : 1), "compare sign %d", r); } break; }
		default: { c.op("s%d += view(s%d)", s, d); std::string r = ref[s] + ref[d]; *slot[s] += View(*slot[d]); ref[s] = r; break; }
		}
		for(int k = 0; k < S; k++) check_owned(c, *slot[k], ref[k], "history");
		c.check_san("C15");
		VTRACK_POLL(c);
	}
	for(int s = 0; s < S; s++) c.destroy(slot[s]);
	VTRACK_END(c);
	c.nontrivial = c.focus() == "C16" ? released : nt;
	c.tag("history");
}

// ---- character types wider than a byte ------------------------------------------------------
// The byte strings are widened so that code units which agree modulo 256 but differ above it occur in both operands
// (position parity decides the high part): an implementation that narrows a code unit to a byte confuses them.
template<typename Char>
std::basic_string<Char> widen(const std::string &s, unsigned salt) {
	std::basic_string<Char> w;
	for(size_t i = 0; i < s.size(); i++) {
		Char u = (Char)(((unsigned char)s[i] & 0x7f) + (((i + salt) & 1) ? 0x100u : 0u) + ((sizeof(Char) > 2 && ((i + salt) & 2)) ? 0x10000u : 0u));
		// the extremes of the character type (differences that do not fit into int / into the signed type of the same width)
		if(((unsigned char)s[i] & 0x80) && ((unsigned char)s[i] & 3) == 0) u = (Char)~(Char)0;
		else if(((unsigned char)s[i] & 0x80) && ((unsigned char)s[i] & 3) == 1) u = (Char)((Char)1 << (8 * sizeof(Char) - 1));
		else if(((unsigned char)s[i] & 0x80) && ((unsigned char)s[i] & 3) == 2) u = (Char)(((Char)1 << (8 * sizeof(Char) - 1)) + 0x10000000u * (sizeof(Char) > 2));
		w.push_back(u);
	}
	return w;
}
template<typename Char>
void wide_battery(Ctx &c, const std::string &A8, const std::string &B8, const char *tname) {
	using WS = std::basic_string<Char>; using WV = std::basic_string_view<Char>;
	using FV = frg::basic_string_view<Char>; using FS = frg::basic_string<Char, track_alloc>;
	WS A = widen<Char>(A8, 0), B = widen<Char>(B8, 1);
	auto exactw = [&](const WS &w, bool term = false) { size_t n = w.size() + (term ? 1 : 0); Char *p = (Char *)malloc(n * sizeof(Char)); c.arena.push_back({p, nullptr}); for(size_t i = 0; i < w.size(); i++) p[i] = w[i]; if(term) p[w.size()] = 0; return (const Char *)p; };
	FV va(exactw(A), A.size()), vb(exactw(B), B.size());
	WV ra(A), rb(B);
	c.op("wide battery <%s> on the widened operands", tname);
	VCHECK(c, "C15", (va == vb) == (A == B) && (vb == va) == (A == B), "<%s> view == gives %d, reference %d", tname, (int)(va == vb), (int)(A == B));
	WS probe = A.substr(0, 2) + B.substr(0, 2); probe.push_back((Char)0); probe.push_back((Char)0x100); probe.push_back((Char)0x61); probe.push_back((Char)0x161);
	for(Char ch : probe) {
		for(size_t start = 0; start <= A.size() + 1; start++) { size_t got = va.find_first(ch, start), exp = ra.find(ch, start); VCHECK(c, "C15", got == exp, "<%s> find_first(%#x, %zu) is %zd, reference %zd", tname, (unsigned)ch, start, (ssize_t)got, (ssize_t)exp); }
		size_t got = va.find_last(ch), exp = ra.rfind(ch);
		VCHECK(c, "C15", got == exp, "<%s> find_last(%#x) is %zd, reference %zd", tname, (unsigned)ch, (ssize_t)got, (ssize_t)exp);
		for(size_t start : {size_t(-1), size_t(-1) / sizeof(Char) + 1, size_t(-1) / sizeof(Char), size_t(-1) / 2 + 1, A.size() + 2})
			VCHECK(c, "C15", va.find_first(ch, start) == size_t(-1), "<%s> find_first(%#x, %zu) finds something although the start position lies beyond the end", tname, (unsigned)ch, start);
	}
	for(size_t start = 0; start <= A.size() + 1; start++) {
		size_t got = va.find_first_of(vb, start), exp = ra.find_first_of(rb, start);
		VCHECK(c, "C15", got == exp, "<%s> find_first_of(B, %zu) is %zd, reference %zd (code units that agree modulo 256 are different characters)", tname, start, (ssize_t)got, (ssize_t)exp);
	}
	for(size_t from = 0; from <= A.size(); from++) for(size_t len = 0; from + len <= A.size(); len += 1 + len / 4) {
		FV sub = va.sub_string(from, len);
		VCHECK(c, "C15", sub.data() == va.data() + from && sub.size() == len, "<%s> sub_string(%zu,%zu) yields another range", tname, from, len);
		VCHECK(c, "C15", (sub == va) == (ra.substr(from, len) == ra), "<%s> sub_string(%zu,%zu) == whole", tname, from, len);
	}
	bool sw = B.size() <= A.size() && ra.substr(0, B.size()) == rb, ew = A.size() >= B.size() && ra.substr(A.size() - B.size()) == rb;
	VCHECK(c, "C15", va.starts_with(vb) == sw && va.ends_with(vb) == ew, "<%s> starts_with/ends_with give %d/%d, reference %d/%d", tname, (int)va.starts_with(vb), (int)va.ends_with(vb), (int)sw, (int)ew);
	// the same relations against a prefix/suffix of A itself (so that they are true for non-empty operands)
	if(A.size() >= 2) { FV pre(exactw(A.substr(0, A.size() / 2)), A.size() / 2), suf(exactw(A.substr(A.size() / 2)), A.size() - A.size() / 2);
		VCHECK(c, "C15", va.starts_with(pre) && va.ends_with(suf), "<%s> a view does not start with its own prefix / end with its own suffix", tname); }
	auto owned = [&](FS &s, const WS &ref, const char *what) {
		VCHECK(c, "C15", s.size() == ref.size(), "<%s> %s: size() is %zu, reference %zu", tname, what, s.size(), ref.size());
		if(s.data()) { for(size_t i = 0; i < ref.size(); i++) VCHECK(c, "C15", s[i] == ref[i], "<%s> %s: character %zu is %#x, reference %#x", tname, what, i, (unsigned)s[i], (unsigned)ref[i]);
			VCHECK(c, "C15", s.data()[s.size()] == 0, "<%s> %s: data()[size()] is not the terminator", tname, what); }
		else VCHECK(c, "C15", ref.empty(), "<%s> %s: data() is null for %zu characters", tname, what, ref.size());
	};
	FS *sa = c.make<FS>(exactw(A), A.size(), track_alloc{}); FS *sb = c.make<FS>(vb, track_alloc{});
	owned(*sa, A, "string(ptr,len)"); owned(*sb, B, "string(view)");
	if(A.find((Char)0) == WS::npos) { FS *sc = c.make<FS>(exactw(A, true), track_alloc{}); owned(*sc, A, "string(cstr)"); c.destroy(sc); }
	int ab = sa->compare(*sb), ba = sb->compare(*sa);
	VCHECK(c, "C15", (ab == 0) == (A == B) && sgn(ab) == -sgn(ba) && (*sa == *sb) == (A == B), "<%s> compare is %d / %d, reference equality %d", tname, ab, ba, (int)(A == B));
	if(A.size() == B.size() && A != B) { size_t i = 0; while(A[i] == B[i]) i++; VCHECK(c, "C15", sgn(ab) == (A[i] < B[i] ? -1 : 1), "<%s> compare sign is %d at first difference %#x / %#x", tname, ab, (unsigned)A[i], (unsigned)B[i]); }
	{ FS *cat = c.make<FS>(*sa + vb); owned(*cat, A + B, "a + view"); c.destroy(cat); }
	for(Char ch : {(Char)0x61, (Char)0, (Char)0x100, (Char)0x161}) { FS *cat = c.make<FS>(*sa + ch); owned(*cat, A + ch, "a + char"); c.destroy(cat); }
	{ FS *cp = c.make<FS>(*sa); *cp += vb; owned(*cp, A + B, "a += view"); *cp += (Char)0x100; owned(*cp, A + B + (Char)0x100, "a += char"); cp->push_back((Char)0); owned(*cp, A + B + (Char)0x100 + (Char)0, "push_back(0)");
		*cp += FV(*cp); WS d = A + B + (Char)0x100 + (Char)0; owned(*cp, d + d, "a += view of itself"); c.destroy(cp); }
	for(size_t n : {size_t(0), A.size() / 2, A.size(), A.size() + 3}) { FS *cp = c.make<FS>(*sa); cp->resize(n); WS exp = A.substr(0, std::min(n, A.size()));
		VCHECK(c, "C15", cp->size() == n && cp->data()[n] == 0, "<%s> resize(%zu): size %zu or terminator wrong", tname, n, cp->size());
		for(size_t i = 0; i < exp.size(); i++) VCHECK(c, "C15", (*cp)[i] == exp[i], "<%s> resize(%zu) does not keep the prefix", tname, n);
		c.destroy(cp); }
	{ FS *cp = c.make<FS>(*sa); *cp = *sb; owned(*cp, B, "assignment"); swap(*cp, *sa); owned(*cp, A, "swap"); owned(*sa, B, "swap"); swap(*cp, *sa); c.destroy(cp); }
	VCHECK(c, "C15", sa->starts_with(vb) == sw && sa->ends_with(vb) == ew, "<%s> string starts_with/ends_with", tname);
	c.check_san("C15");
	VTRACK_POLL(c);
	c.destroy(sb); c.destroy(sa);
}

// ---- views longer than 2^31 and 2^32 characters -------------------------------------------------
// Address space is reserved without backing (PROT_NONE, MAP_NORESERVE); only the first and the last page of the view are
// readable. Every check below needs only those pages when positions are computed in size_t; an index that is squeezed
// through int or unsigned lands in the inaccessible middle or gives a wrong position.
void huge_views(Ctx &c) {
	auto &t = c.t;
	static const size_t sizes[] = {(size_t(1) << 31) + 1, (size_t(1) << 31) - 1, (size_t(1) << 32) + 5, (size_t(1) << 32) - 1, (size_t(3) << 31) + 7, (size_t(1) << 33) + 1};
	size_t size = sizes[t.pick(6)] + (t.flip() ? 0 : t.pick(4096));
	size_t page = 4096, map_len = (size + 2 * page - 1) / page * page + page;
	char *base = (char *)mmap(nullptr, map_len, PROT_NONE, MAP_PRIVATE | MAP_ANONYMOUS | MAP_NORESERVE, -1, 0);
	if(base == MAP_FAILED) { c.discard("address space for a huge view is not available"); return; }
	char *end = base + map_len - page;                 // the view ends where the last readable page ends; the page behind it stays inaccessible
	char *start = end - size;
	char *first_page = (char *)((uintptr_t)start & ~(page - 1));
	mprotect(first_page, 2 * page, PROT_READ | PROT_WRITE);
	mprotect(end - 2 * page, 2 * page, PROT_READ | PROT_WRITE);
	memset(start, 'm', (size_t)(first_page + 2 * page - start));
	memset(end - page, 'm', page);
	c.op("view of %zu characters (first and last page readable)", size);
	c.tag("huge-view");
	end[-1] = 'x'; end[-2] = 'y'; end[-3] = 'x'; start[0] = 'f'; start[1] = 'g'; start[2] = 'f';
	frg::string_view v(start, size);
	VCHECK(c, "C15", v.size() == size, "size() is %zu", v.size());
	VCHECK(c, "C15", v[size - 1] == 'x' && v[size - 2] == 'y' && v[0] == 'f', "operator[] at the ends");
	VCHECK(c, "C15", v.find_last('x') == size - 1, "find_last('x') is %zu, the last character (position %zu) is 'x'", v.find_last('x'), size - 1);
	VCHECK(c, "C15", v.find_last('y') == size - 2, "find_last('y') is %zu, expected %zu", v.find_last('y'), size - 2);
	VCHECK(c, "C15", v.find_first('f') == 0 && v.find_first('g') == 1 && v.find_first('f', 1) == 2, "find_first at the start of a huge view");
	VCHECK(c, "C15", v.find_first('x', size - 4) == size - 3 && v.find_first('y', size - 4) == size - 2 && v.find_first('x', size - 2) == size - 1, "find_first with a start position near the end of a huge view: %zu / %zu", v.find_first('x', size - 4), v.find_first('y', size - 4));
	VCHECK(c, "C15", v.find_first_of(frg::string_view("g"), 0) == 1 && v.find_first_of(frg::string_view("yx"), size - 4) == size - 3, "find_first_of near the ends of a huge view");
	frg::string_view tail = v.sub_string(size - 3, 3), head = v.sub_string(0, 3);
	VCHECK(c, "C15", tail.data() == end - 3 && tail.size() == 3 && tail == frg::string_view("xyx") && head == frg::string_view("fgf"), "sub_string at the ends of a huge view");
	VCHECK(c, "C15", v.ends_with(frg::string_view("xyx")) && v.starts_with(frg::string_view("fgf")) && !v.ends_with(frg::string_view("xyy")), "starts_with/ends_with on a huge view");
	frg::string_view shorter = v.sub_string(0, size - 1);
	VCHECK(c, "C15", !(v == shorter) && !(shorter == v) && (v != shorter), "a huge view compares equal to its own prefix of %zu characters", size - 1);
	munmap(base, map_len);
	c.nontrivial = true;
}

void battery(Ctx &c, const std::string &A, const std::string &B) {
	c.op("battery A=%s B=%s", show(A).c_str(), show(B).c_str());
	view_battery(c, A, B);
	number_checks(c, A);
	string_battery(c, A, B);
	if(A.size() + B.size() <= 24) { wide_battery<char16_t>(c, A, B, "char16_t"); wide_battery<char32_t>(c, A, B, "char32_t"); c.tag("wide-battery"); }
	VTRACK_END(c);
	c.tag("battery");
	// non-trivial: both operands non-empty and related: a search that finds at index > 0, a
	// comparison differing at a position > 0, or a prefix/suffix relation
	bool related = false;
	if(!A.empty() && !B.empty()) {
		size_t f = A.find_first_of(B);
		if(f != std::string::npos && f > 0) related = true;
		if(A.size() == B.size() && A != B && A[0] == B[0]) related = true;
		if(A.size() > B.size() && (A.compare(0, B.size(), B) == 0 || A.compare(A.size() - B.size(), B.size(), B) == 0)) related = true;
	}
	c.nontrivial = c.focus() == "C16" ? !A.empty() : related;
}
} // namespace

void verif_case(Ctx &c) {
	unsigned mode = c.t.pick(4);
	if(mode == 3) { if(c.t.pick(8) == 0 && c.focus() != "C16") { huge_views(c); return; } mode = 0; }
	if(mode == 0) { std::string A = gen_bytes(c), B = gen_bytes(c); battery(c, A, B); }
	else if(mode == 1) { std::string A = gen_bytes(c); std::string B = A; // related operand: mutate A
		unsigned how = c.t.pick(5);
		if(how == 0 && !B.empty()) B = B.substr(0, c.t.pick(B.size() + 1));
		else if(how == 1 && !B.empty()) B = B.substr(c.t.pick(B.size() + 1));
		else if(how == 2 && !B.empty()) B[c.t.pick(B.size())] ^= 1 + c.t.pick(3);
		else if(how == 3) B += "ab\0"[c.t.pick(3)];
		battery(c, A, B); }
	else history(c);
}

// all pairs of strings of length <= 3 over {a, b, NUL}
void verif_enum(Enum &e) {
	std::vector<std::vector<uint32_t>> strs;   // tape fragments: mode 0, len, chars
	for(uint32_t n = 0; n <= 3; n++) {
		uint32_t total = 1; for(uint32_t i = 0; i < n; i++) total *= 3;
		for(uint32_t code = 0; code < total; code++) {
			std::vector<uint32_t> f{0, n};
			uint32_t x = code; for(uint32_t i = 0; i < n; i++) { f.push_back(x % 3); x /= 3; }
			strs.push_back(f);
		}
	}
	uint64_t n = 0;
	for(auto &a : strs) for(auto &b : strs) {
		std::vector<uint32_t> tape{0};
		tape.insert(tape.end(), a.begin(), a.end());
		tape.insert(tape.end(), b.begin(), b.end());
		if(!e.run(tape)) return;
		n++;
	}
	e.scope("all pairs (A,B) of strings of length <= 3 over {a,b,NUL} x the complete view/string battery", n);
}
