// C11 layers 2 and 3: frg::qs_domain / qs_agent under a harness-owned scheduler with TSan.
// std::atomic inside qs.hpp is interposed (same memory orders, every access a schedule point); the
// domain mutex is dsched::sched_mutex (lock/unlock are schedule points, real happens-before edges).
// An RCU client is layered on top: shared slots hold heap objects; readers load a slot (acquire),
// read the object's plain fields and later pass a quiescent state; the updater replaces the slot
// and registers a barrier whose callback overwrites and frees the old object. A third agent keeps
// grace periods moving on its own (without it the memory-order clause is tested vacuously, see
// DESIGN.md C11).
// Every thread ends with a fair tail: while something is pending it keeps reporting quiescent
// states and calling run(); a run that does not finish within the step limit is a lost grace
// period (bounded liveness).
#include <atomic>
#include <new>
#include <vector>
#include <set>
#include <string>
#include <cctype>
#include <type_traits>
#include <utility>
#include <cstring>
#include "../engine/verif_atomic.hpp"
#include <frg/macros.hpp>
#include <frg/utility.hpp>
#include <frg/intrusive.hpp>
#include <frg/allocation.hpp>
#include <frg/list.hpp>
#include "../engine/verif_atomic_begin.hpp"
#include <frg/qs.hpp>
#include "../engine/verif_atomic_end.hpp"
#include "../engine/verif.hpp"

const char *verif_harness = "qs_conc";
using namespace verif;
// offline() of an agent that holds a deferred grace period is refused by a documented TODO assertion; it is recognised by the word
// "deferred" in the asserted expression, however the flag is spelled (_qs_deferred, deferred_bit, ...)
static bool mentions_deferred(const std::string &m) { std::string l; for(char ch : m) l += (char)tolower((unsigned char)ch); return l.find("deferred") != std::string::npos; }
void verif_case_reset() { vclock::reset(); }

namespace {
using Mutex = dsched::sched_mutex;
using Domain = frg::qs_domain<Mutex>;
using Agent = frg::qs_agent<Mutex>;

struct Obj { long a, b; int version; bool retired; vclock::Stamp last_read[4]; };      // last_read[k]: agent k's latest read-side access (vclock.hpp)
constexpr long DEAD = 0x0DEAD0DEADl;

struct BarrierInfo { int id; int owner; std::set<int> waiting; bool fired = false; Obj *victim = nullptr; vclock::Stamp qstamp[4]; bool has_qstamp[4] = {false, false, false, false}; };     // qstamp[k]: agent k's position when it entered its first quiescent state (or offline()) after the registration
struct Barrier { frg::qs_node node; int id; };

struct World {
	std::vector<BarrierInfo> barriers;      // harness bookkeeping: only touched inside ignore regions
	std::vector<bool> online;
	std::vector<int> in_run;                // per thread: inside run()?
	std::vector<int> in_qs;                 // per agent: inside quiescent_state() right now?
	std::string error;
	unsigned other_closed = 0;              // read-side sections that lay in a period closed by a different agent (approximation: a reader's object was retired by a callback while a third agent had registered barriers)
	std::verif_atomic<Obj *> slot[2];
	unsigned scripts_left = 0;
	unsigned sync_barriers = 0;
	unsigned offline_registrations = 0;
};
World *W = nullptr;
thread_local int my_agent = -1;

void on_grace(frg::qs_node *n) {
	Barrier *b = reinterpret_cast<Barrier *>(n);
	Obj *victim = nullptr;
	{
		dsched::Ignore ig;
		auto &bi = W->barriers[b->id];
		char buf[220];
		if(bi.fired && W->error.empty()) { snprintf(buf, sizeof buf, "the callback of barrier %d was invoked twice", bi.id); W->error = buf; }
		bi.fired = true;
		if((my_agent != bi.owner || !W->in_run[my_agent]) && W->error.empty()) { snprintf(buf, sizeof buf, "the callback of barrier %d (agent %d) was invoked by agent %d outside that agent's run()", bi.id, bi.owner, my_agent); W->error = buf; }
		if(!bi.waiting.empty() && W->error.empty()) { snprintf(buf, sizeof buf, "the callback of barrier %d ran although agent %d, online at registration, has not been quiescent or offline since", bi.id, *bi.waiting.begin()); W->error = buf; }
		// "everything that agent did before entering quiescent_state() happens-before the callback": asked of the vector clocks directly
		for(int k = 0; k < 4; k++) if(bi.has_qstamp[k] && !vclock::hb(bi.qstamp[k]) && W->error.empty()) { snprintf(buf, sizeof buf, "the callback of barrier %d runs although what agent %d did before it entered its quiescent state does not happen before the callback: the thread in run() has not acquired (C++20 [intro.races]) anything that agent released since", bi.id, k); W->error = buf; }
		victim = bi.victim;
	}
	// a callback takes time: other agents may run (and close further grace periods) while it executes
	dsched::point();
	if(victim) {
		for(int k = 0; k < 4; k++) if(!vclock::hb(victim->last_read[k])) {
			dsched::Ignore ig;
			if(W->error.empty()) { char buf[260]; snprintf(buf, sizeof buf, "the callback of barrier %d reclaims an object although agent %d's read of it does not happen before the callback: no chain of release sequences (C++20 [intro.races]/5) and acquire loads leads from the reader's quiescent state to run()", b->id, k); W->error = buf; }
		}
		// plain writes: everything a reader did with the object before its quiescent state must happen-before this
		victim->a = DEAD; victim->b = DEAD; victim->retired = true;
	}
	dsched::point();
	memset((void *)b, 0xDD, sizeof *b);
	free(b);
}

struct Script { std::vector<unsigned> ops; };
}

void verif_case(Ctx &c) {
	auto &t = c.t;
	World w; W = &w;
	unsigned nagents = 2 + t.pick(2);
	Domain *dom = c.make<Domain>();
	std::vector<Agent *> ag;
	w.online.assign(nagents, true); w.in_run.assign(nagents, 0); w.in_qs.assign(nagents, 0);
	std::vector<Obj *> all_objs;
	auto new_obj = [&](int ver) { Obj *o = (Obj *)malloc(sizeof(Obj)); memset((void *)o, 0, sizeof(Obj)); o->a = ver * 7 + 1; o->b = ~o->a; o->version = ver; o->retired = false; all_objs.push_back(o); return o; };
	for(int s = 0; s < 2; s++) w.slot[s].a.store(new_obj(s), std::memory_order_relaxed);
	// roles: agent 0 updater, agent 1 reader, agent 2 (if any) independent barrier cycler or second reader
	std::vector<Script> scripts(nagents);
	for(unsigned a = 0; a < nagents; a++) { unsigned n = 1 + t.pick(8); for(unsigned i = 0; i < n; i++) scripts[a].ops.push_back(t.pick(16)); }
	bool third_cycles = nagents >= 3 && t.pick(4) != 0;
	{ std::string s; for(unsigned a = 0; a < nagents; a++) { s += " a" + std::to_string(a) + ":"; for(unsigned o : scripts[a].ops) s += " " + std::to_string(o); } c.op("%u agents%s; scripts%s", nagents, third_cycles ? " (agent 2 cycles barriers)" : "", s.c_str()); }
	// agents are constructed (and go online) sequentially before the threads start
	for(unsigned a = 0; a < nagents; a++) ag.push_back(c.make<Agent>(dom));
	w.scripts_left = nagents;
	bool saw_deferred_discard = false;
	int version = 2;

	auto mark_quiescent = [&](int a) { dsched::Ignore ig; vclock::Stamp now = vclock::now(); for(auto &b : w.barriers) if(!b.fired && b.waiting.erase(a) && a < 4) { b.qstamp[a] = now; b.has_qstamp[a] = true; } };
	auto register_barrier = [&](int a, Obj *victim) {
		Barrier *b = (Barrier *)malloc(sizeof(Barrier)); new (b) Barrier();
		{ dsched::Ignore ig; BarrierInfo bi; bi.id = (int)w.barriers.size(); bi.owner = a; bi.victim = victim; for(unsigned k = 0; k < nagents; k++) if(w.online[k] && !w.in_qs[k]) bi.waiting.insert(k);     /* an agent that is inside quiescent_state() right now has "since been inside" it */
		  b->id = bi.id; w.barriers.push_back(bi); }
		b->node.on_grace_period = on_grace;
		ag[a]->await_barrier(&b->node);
	};
	auto qs = [&](int a) { { dsched::Ignore ig; w.in_qs[a] = 1; } mark_quiescent(a); ag[a]->quiescent_state(); { dsched::Ignore ig; w.in_qs[a] = 0; } };
	auto do_run = [&](int a) { { dsched::Ignore ig; w.in_run[a] = 1; } ag[a]->run(); { dsched::Ignore ig; w.in_run[a] = 0; } };
	auto pending = [&]() { dsched::Ignore ig; for(auto &b : w.barriers) if(!b.fired) return true; return false; };
	auto read_side = [&](int a, unsigned which) {
		Obj *o = w.slot[which & 1].load(std::memory_order_acquire);
		long x = o->a; dsched::point(); long y = o->b; bool ret = o->retired;      // plain reads inside the read-side section
		o->last_read[a & 3] = vclock::now();
		dsched::Ignore ig;
		if((x == DEAD || y == DEAD || ret || y != ~x) && w.error.empty()) { char buf[160]; snprintf(buf, sizeof buf, "reader agent %d saw an object that its grace-period callback had already overwritten (a=%lx b=%lx)", a, x, y); w.error = buf; }
	};

	// Sequential prologue (before the threads start): histories do not only begin with every agent online and nothing pending.
	// bit 0: agent 0 has registered a barrier; bit 1: agent 1 has gone offline.
	unsigned prologue = t.pick(4);
	if(prologue & 1) { my_agent = 0; register_barrier(0, nullptr); c.tag("prologue-barrier-pending"); }
	if(prologue & 2) { my_agent = 1; mark_quiescent(1); ag[1]->offline(); w.online[1] = false; mark_quiescent(1); c.tag("prologue-agent-offline"); }
	my_agent = -1;
	if(prologue) c.op("prologue: %s%s", prologue & 1 ? "agent 0 registered a barrier; " : "", prologue & 2 ? "agent 1 went offline" : "");
	std::vector<std::function<void()>> bodies;
	for(unsigned a = 0; a < nagents; a++) bodies.push_back([&, a] {
		my_agent = (int)a;
		try {
			for(unsigned op : scripts[a].ops) {
				bool on; { dsched::Ignore ig; on = w.online[a]; }
				// an offline agent may come online, and it may also register barriers and call run() ("in any order")
				if(!on) { if(op % 4 == 0) { ag[a]->online(); dsched::Ignore ig; w.online[a] = true; }
					else if(op % 4 == 1) { register_barrier(a, nullptr); dsched::Ignore ig; w.offline_registrations++; }
					else if(op % 4 == 2) do_run(a);
					continue; }
				if(a == 0) {                // updater
					switch(op % 8) {
					case 0: case 1: case 2: { Obj *n = new_obj(version++); Obj *old = w.slot[op & 1].exchange(n, std::memory_order_acq_rel); register_barrier(a, old); break; }
					case 3: case 4: qs(a); break;
					case 5: case 6: do_run(a); break;
					default: if((op >> 3) & 1) {
							// synchronous variant: replace the object, wait with quiescent_barrier(), then retire the old object directly
							Obj *n = new_obj(version++); Obj *old = w.slot[op & 1].exchange(n, std::memory_order_acq_rel);
							int id; { dsched::Ignore ig; BarrierInfo bi; bi.id = (int)w.barriers.size(); bi.owner = a; bi.victim = nullptr; for(unsigned k = 0; k < nagents; k++) if(w.online[k] && !w.in_qs[k]) bi.waiting.insert(k); id = bi.id; w.barriers.push_back(bi); w.in_qs[a] = 1; }
							mark_quiescent(a);          // the caller reports quiescent states itself while it waits
							ag[a]->quiescent_barrier();
							{ dsched::Ignore ig; w.in_qs[a] = 0; auto &bi = w.barriers[id]; bi.fired = true;
							  if(!bi.waiting.empty() && w.error.empty()) { char buf[200]; snprintf(buf, sizeof buf, "quiescent_barrier() of agent %d returned although agent %d, online when it was called, has not been quiescent or offline since", a, *bi.waiting.begin()); w.error = buf; } }
							old->a = DEAD; old->b = DEAD; old->retired = true;      // plain writes, as a callback would do
							{ dsched::Ignore ig; w.sync_barriers++; }
						} else read_side(a, op >> 3);
						break;
					}
				} else if(a == 2 && third_cycles) {   // keeps grace periods moving on its own
					switch(op % 4) {
					case 0: register_barrier(a, nullptr); break;
					case 1: case 2: qs(a); break;
					default: do_run(a); break;
					}
				} else {                    // reader
					switch(op % 8) {
					case 0: case 1: case 2: case 3: read_side(a, op >> 3); break;
					case 4: case 5: qs(a); break;
					case 6: register_barrier(a, nullptr); break;      // readers register barriers of their own too (overlapping registrations)
					default: { mark_quiescent(a);      // going offline counts as quiescent
						{ dsched::Ignore ig; w.in_qs[a] = 1; }       // inside offline(): quiescent from here on
						try { ag[a]->offline(); { dsched::Ignore ig; w.online[a] = false; w.in_qs[a] = 0; } mark_quiescent(a); }
						catch(Panic &p) { { dsched::Ignore ig; w.in_qs[a] = 0; } if(mentions_deferred(p.msg)) { dsched::Ignore ig; saw_deferred_discard = true; } else throw; }
						break; }
					}
				}
			}
			// fair tail: keep acknowledging and running until nothing is pending and every script is done
			{ dsched::Ignore ig; w.scripts_left--; }
			bool on; { dsched::Ignore ig; on = w.online[a]; }
			if(!on) { ag[a]->online(); dsched::Ignore ig; w.online[a] = true; }
			while(true) {
				bool more; { dsched::Ignore ig; more = w.scripts_left > 0; }
				if(!more && !pending()) break;
				qs(a);
				do_run(a);
				dsched::yield_now();        // let the others move (the tail must not monopolise the baton)
			}
		} catch(Panic &p) { dsched::Ignore ig; if(w.error.empty()) w.error = "frg_panic on a valid history: " + p.msg; }
	});
	unsigned smode = dsched::pick_mode(t); c.tagf("sched-mode-%u", smode & 0xff); if(smode & 0x100) c.tag("sched-mode-window-hunting");
	auto choose = dsched::make_chooser(t, smode);
	auto r = dsched::run(bodies, choose, 60000);
	if(saw_deferred_discard) c.discard("offline() of an agent with a deferred grace period (documented TODO)");
	VCHECK(c, "C11", r.verdict != "deadlock", "deadlock: every agent is blocked (domain mutex never released?) after %llu steps", (unsigned long long)r.steps);
	VCHECK(c, "C11", w.error.empty(), "%s", w.error.c_str());
	VCHECK(c, "C11", r.verdict.empty(), "the run did not finish within %llu schedule points although every agent keeps reporting quiescent states and calling run(): a grace period is lost", (unsigned long long)r.steps);
	for(auto &b : w.barriers) VCHECK(c, "C11", b.fired, "the callback of barrier %d never ran", b.id);
	c.check_san("C11");
	for(Obj *o : all_objs) free(o);
	unsigned nb = (unsigned)w.barriers.size(); bool third = false; for(auto &b : w.barriers) if(b.owner == 2) third = true;
	if(third) c.tag("third-agent-registered-barriers");
	if(nb >= 2) c.tag("several-barriers");
	if(w.sync_barriers) c.tag("quiescent_barrier-concurrent");
	if(w.offline_registrations) c.tag("barrier-registered-while-offline");
	c.tagf("switches-%s", r.switches < 5 ? "0-4" : r.switches < 20 ? "5-19" : "20+");
	c.nontrivial = nb >= 1 && r.switches >= 3;
	W = nullptr;
}

// small-scope exhaustive: 2 agents, <= 2 scripted operations each, interleavings at atomic/lock granularity
void verif_enum(Enum &e) {
	uint64_t cap = e.tier == "thorough" ? 50000 : 2500;
	struct Shape { std::vector<uint32_t> prefix; const char *name; uint32_t prologue = 0; };
	// prefix: nagents-2, then per agent: nops-1, ops...; prologue: see verif_case
	std::vector<Shape> shapes = {
		{{0, 0, 0, 0, 0}, "updater: replace+barrier | reader: read"},
		{{0, 1, 0, 5, 1, 0, 4}, "updater: replace+barrier, run | reader: read, quiescent_state"},
		{{0, 1, 0, 3, 1, 8, 4}, "updater: replace+barrier, quiescent_state | reader: read, quiescent_state"},
		{{0, 1, 3, 0, 1, 4, 6}, "updater: quiescent_state, replace+barrier | reader: quiescent_state, barrier (overlapping registrations)"},
		{{0, 0, 0, 2, 7, 1, 2}, "updater: replace+barrier | reader: offline, barrier while offline, run"},
		{{0, 1, 3, 3, 1, 1, 2}, "prologue (a barrier pending, reader offline); updater: quiescent_state x2 | reader: barrier while offline, run", 3},
		{{0, 1, 3, 5, 1, 1, 2}, "prologue (a barrier pending, reader offline); updater: quiescent_state, run | reader: barrier while offline, run", 3},
	};
	for(auto &sh : shapes) {
		std::vector<uint32_t> choices; bool more = true; uint64_t n = 0;
		while(more && n < cap) {
			std::vector<uint32_t> tape = sh.prefix; tape.push_back(sh.prologue); tape.push_back(0 /* schedule mode: uniform */); tape.insert(tape.end(), choices.begin(), choices.end());
			if(!e.run(tape)) return;
			n++;
			auto sizes = dsched::S().trace_sizes;
			choices.resize(sizes.size(), 0);
			int i = (int)sizes.size() - 1;
			while(i >= 0 && choices[i] + 1 >= sizes[i]) i--;
			if(i < 0) more = false; else { choices[i]++; choices.resize(i + 1); }
		}
		std::string name = std::string(sh.name) + ": interleavings at atomic/lock granularity" + (more ? " (bounded by the run cap, not complete)" : "");
		e.scope(name.c_str(), n);
	}
}
