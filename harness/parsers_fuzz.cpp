// C20: the four parsers (printf format strings, fmt() format strings, kernel command lines,
// to_number) are memory-safe and total on arbitrary bytes.
//
// Tape layout: element 0 selects parser and variant, every further element is one input byte.
// The bytes are copied into an exact-size heap buffer (printf: bytes up to the first NUL plus the
// terminator and nothing else). printf gets a hand-made va_list with exactly
// count('%') + count('*') + 9 (if a '$' occurs) slots: a sound upper bound on what any reading of
// the directives can consume, so a read beyond it is an over-consumption.
// Allowed outcomes: the call returns, or it stops through frg_panic (FRG_ASSERT). Anything the
// sanitizers report (out-of-bounds, signed overflow, bad shift), a damaged canary or a
// string_view option target outside the input buffer is a violation.
#include <cstdarg>
#include <string>
#include <vector>
#include <ranges>
#include <frg/printf.hpp>
#include <frg/cmdline.hpp>
#include <frg/array.hpp>
#define VERIF_FUZZ_RAW
#include "../engine/verif.hpp"

const char *verif_harness = "parsers_fuzz";
using namespace verif;

namespace {
struct CountSink {
	size_t n = 0; uint32_t h = 0;
	// (leaves without an exception when called below guarded(): the library may declare its formatting primitives noexcept)
	void append(char c) { n++; h = h * 31 + (unsigned char)c; if(n > (size_t(1) << 16)) { if(in_guarded()) leave_guarded(); throw Discard{"output longer than 64 KiB"}; } }
	void append(const char *s) { while(*s) append(*s++); }
	void append(const char *s, size_t k) { for(size_t i = 0; i < k; i++) append(s[i]); }
};
struct Agent {
	CountSink *sink; frg::va_struct *vsp;
	frg::expected<frg::format_error> operator()(char c) { sink->append(c); return frg::success; }
	frg::expected<frg::format_error> operator()(const char *c, size_t n) { sink->append(c, n); return frg::success; }
	frg::expected<frg::format_error> operator()(char t, frg::format_options opts, frg::printf_size_mod szmod) {
		switch(t) {
		case 'c': case 'p': case 's': frg::do_printf_chars(*sink, t, opts, szmod, vsp); break;
		case 'd': case 'i': case 'o': case 'x': case 'X': case 'u': case 'b': case 'B': frg::do_printf_ints(*sink, t, opts, szmod, vsp); break;
		default: return frg::format_error::agent_error;     // conversions outside the property (floats, %n, unknown)
		}
		return frg::success;
	}
};

// The x86-64 SysV va_list, written through its documented layout (g++ treats __va_list_tag as opaque, clang exposes the members)
struct SysVVaList { unsigned gp_offset, fp_offset; void *overflow_arg_area; void *reg_save_area; };
static_assert(sizeof(va_list) == sizeof(SysVVaList), "x86-64 SysV va_list expected");
inline void make_va_list(va_list ap, void *area) { SysVVaList raw{48, 304, area, nullptr}; memcpy((void *)&ap[0], &raw, sizeof raw); }
char *exact(Ctx &c, const std::string &s, bool terminated) {
	char *p = (char *)malloc(s.size() + (terminated ? 1 : 0));
	c.arena.push_back({p, nullptr});
	if(!s.empty()) memcpy(p, s.data(), s.size());
	if(terminated) p[s.size()] = 0;
	return p;
}
std::string show(const std::string &s) {
	std::string o;
	for(unsigned char ch : s) { if(ch >= 0x20 && ch < 0x7f && ch != '\\') o += (char)ch; else { char b[8]; snprintf(b, sizeof b, "\\x%02x", ch); o += b; } }
	return o;
}
bool panicked = false;

void run_printf(Ctx &c, std::string in, unsigned variant) {
	in = in.substr(0, in.find('\0'));
	c.op("printf_format \"%s\" (variant %u)", show(in).c_str(), variant);
	size_t nslots = 0; bool dollar = false;
	for(char ch : in) { if(ch == '%' || ch == '*') nslots++; if(ch == '$') dollar = true; }
	if(dollar) {
		// A format in which every directive is positional (and none uses `*`) consumes exactly the arguments 1..max position: the
		// argument area then has exactly that many slots, so that a fetch of an argument the format never names is an out-of-bounds read.
		// Formats that mix numbered and unnumbered directives (undefined in POSIX) keep nine spare slots.
		// Only formats of a strict shape get the exact area: every '%' starts either "%%" or a specification of the form
		// %<position>$ [flags, width, precision and length characters, none of them '$', '*' or '%'] <one of d i o u x X c s p>, with positions
		// 1..64. Anything else (a second "$", "%0$", a position without digits, '*', an unknown conversion, ...) is read by an implementation
		// in its own way and keeps the nine spare slots.
		size_t maxpos = 0; bool strict = true;
		for(size_t i = 0; i < in.size() && strict; i++) {
			if(in[i] == '$' || in[i] == '*') { strict = false; break; }
			if(in[i] != '%') continue;
			if(i + 1 < in.size() && in[i + 1] == '%') { i++; continue; }
			size_t j = i + 1, v = 0; bool digits = false;
			while(j < in.size() && in[j] >= '0' && in[j] <= '9' && v <= 1000) { v = v * 10 + (size_t)(in[j] - '0'); j++; digits = true; }
			if(!digits || j >= in.size() || in[j] != '$' || v < 1 || v > 64) { strict = false; break; }
			j++;
			while(j < in.size() && strchr("-+ #0'123456789.hlzjt", in[j])) j++;
			if(j >= in.size() || !strchr("diouxXcsp", in[j])) { strict = false; break; }
			maxpos = std::max(maxpos, v);
			i = j;
		}
		if(strict && maxpos >= 1) { nslots = maxpos; c.tag("printf-all-positional-exact-args"); }
		else nslots += 9;
	}
	// every slot is a valid pointer to a NUL-terminated string that is also a terminated wide string
	static const char strbuf[16] __attribute__((aligned(8))) = {'a', 'b', 'c', 0, 0, 0, 0, 0, 0, 0, 0, 0, 0, 0, 0, 0};
	uint64_t *area = (uint64_t *)malloc(nslots * 8); c.arena.push_back({area, nullptr});
	// variant 2: every argument is 0 - as a pointer that is the null pointer, for which the library prints "(null)" (narrow and wide)
	if(variant == 2) c.tag("printf-null-pointer-args");
	for(size_t i = 0; i < nslots; i++) area[i] = variant == 2 ? 0 : variant == 0 ? (uint64_t)(uintptr_t)strbuf : (uint64_t)(uintptr_t)(strbuf + 4);   // "abc" / "" (both also aligned, terminated wide strings: %ls reads them as wchar_t)
	frg::va_struct vs;
	make_va_list(vs.args, area);
	size_t nargs = nslots + 10;
	frg::arg *arg_list = (frg::arg *)malloc(sizeof(frg::arg) * nargs); c.arena.push_back({arg_list, nullptr});
	for(size_t i = 0; i < nargs; i++) arg_list[i].p = variant == 2 ? nullptr : (void *)strbuf;
	vs.arg_list = arg_list;
	CountSink sink;
	const char *f = exact(c, in, true);
	if(int how_ = guarded([&] {
		auto r = frg::printf_format(Agent{&sink, &vs}, f, &vs);
		(void)(bool)r;
	}); how_ == 1) panicked = true; else if(how_ == 2) throw Discard{"output longer than 64 KiB"};
	bool meta = in.find('%') != std::string::npos;
	c.nontrivial = meta && in.size() >= 2;
	c.tag("parser-printf"); if(dollar) c.tag("printf-dollar"); if(in.find('*') != std::string::npos) c.tag("printf-star");
}

void run_fmt(Ctx &c, const std::string &in, unsigned variant) {
	c.op("fmt \"%s\" (variant %u)", show(in).c_str(), variant);
	const char *f = exact(c, in, false);
	CountSink sink;
	if(int how_ = guarded([&] {
		if(variant == 0) frg::format(frg::fmt(frg::string_view(f, in.size()), 42, 7u, -5L, 123456789ull, 'q', "str", frg::string_view("view", 4)), sink);
		else if(variant == 1) frg::format(frg::fmt(frg::string_view(f, in.size())), sink);
		else frg::format(frg::fmt(frg::string_view(f, in.size()), -1), sink);
	}); how_ == 1) panicked = true; else if(how_ == 2) throw Discard{"output longer than 64 KiB"};
	c.nontrivial = in.find('{') != std::string::npos && in.size() >= 2;
	c.tag("parser-fmt");
}

struct Targets {
	uint64_t canary0 = 0xC0FFEE00C0FFEE00ull;
	bool b1 = false; uint64_t canary1 = 0xC0FFEE01C0FFEE01ull;
	bool b2 = false; uint64_t canary2 = 0xC0FFEE02C0FFEE02ull;
	frg::string_view sv1; uint64_t canary3 = 0xC0FFEE03C0FFEE03ull;
	frg::string_view sv2; uint64_t canary4 = 0xC0FFEE04C0FFEE04ull;
	int i = 0; uint64_t canary5 = 0xC0FFEE05C0FFEE05ull;
	unsigned u = 0; uint64_t canary6 = 0xC0FFEE06C0FFEE06ull;
	uint64_t q = 0; uint64_t canary7 = 0xC0FFEE07C0FFEE07ull;
	bool ok() const { return canary0 == 0xC0FFEE00C0FFEE00ull && canary1 == 0xC0FFEE01C0FFEE01ull && canary2 == 0xC0FFEE02C0FFEE02ull && canary3 == 0xC0FFEE03C0FFEE03ull
		&& canary4 == 0xC0FFEE04C0FFEE04ull && canary5 == 0xC0FFEE05C0FFEE05ull && canary6 == 0xC0FFEE06C0FFEE06ull && canary7 == 0xC0FFEE07C0FFEE07ull; }
};

struct Joined {
	frg::option *b1, *e1, *b2, *e2;
	struct iterator {
		using value_type = frg::option; using difference_type = ptrdiff_t;
		frg::option *p, *e1, *b2;
		frg::option &operator*() const { return *p; }
		iterator &operator++() { ++p; if(p == e1) p = b2; return *this; }
		iterator operator++(int) { auto c = *this; ++*this; return c; }
		bool operator==(const iterator &o) const { return p == o.p; }
	};
	iterator begin() const { return iterator{b1 == e1 ? b2 : b1, e1, b2}; }
	iterator end() const { return iterator{e2, e1, b2}; }
};

// An option table that is computed on the fly: dereferencing its iterator yields a frg::option by value (a proxy / generated
// range, e.g. a transform view). parse_arguments accepts any range; every option it uses must be alive while it is used.
struct GenTable {
	Targets *tg;
	frg::option at(int i) const {
		switch(i) { case 0: return frg::option{"a", frg::store_true(tg->b1)}; case 1: return frg::option{"1", frg::as_number(tg->i)};
			case 2: return frg::option{"aa", frg::as_string_view(tg->sv1)}; default: return frg::option{"a1", frg::as_number(tg->q)}; }
	}
	struct iterator {
		using value_type = frg::option; using difference_type = ptrdiff_t; using iterator_category = std::input_iterator_tag; using reference = frg::option;
		const GenTable *t = nullptr; int i = 0;
		frg::option operator*() const { return t->at(i); }
		iterator &operator++() { ++i; return *this; }
		iterator operator++(int) { auto c = *this; ++i; return c; }
		bool operator==(const iterator &o) const { return i == o.i; }
	};
	iterator begin() const { return iterator{this, 0}; }
	iterator end() const { return iterator{this, 4}; }
};
static_assert(std::ranges::range<GenTable>);

void run_cmdline(Ctx &c, const std::string &in, unsigned variant) {
	c.op("parse_arguments \"%s\" (table %u)", show(in).c_str(), variant);
	const char *buf = exact(c, in, false);
	Targets *tg = c.make<Targets>();
	frg::string_view line(buf, in.size());
	if(int how_ = guarded([&] {
		if(variant == 0) {
			frg::array args = { frg::option{"a", frg::store_true(tg->b1)}, frg::option{"1", frg::store_true(tg->b2)}, frg::option{"a", frg::as_string_view(tg->sv1)},
				frg::option{"1", frg::as_number(tg->i)}, frg::option{"aa", frg::as_number(tg->u)}, frg::option{"a1", frg::as_number(tg->q)}, frg::option{"", frg::as_string_view(tg->sv2)} };
			frg::parse_arguments(line, args);
		} else if(variant == 1) {
			frg::array<frg::option, 0> *none = nullptr; (void)none;
			std::vector<frg::option> empty;
			frg::parse_arguments(line, empty);
		} else if(variant == 2) {
			frg::array t1 = { frg::option{"foo", frg::store_true(tg->b1)}, frg::option{"baz", frg::as_string_view(tg->sv1)} };
			frg::array t2 = { frg::option{"qux", frg::as_number(tg->u)}, frg::option{"path", frg::as_string_view(tg->sv2)} };
			// two option tables presented as one range (clang 14 cannot instantiate std::views::join of
			// libstdc++ 12, so the joined range is written out)
			frg::parse_arguments(line, Joined{t1.begin(), t1.end(), t2.begin(), t2.end()});
		} else if(variant == 5) {
			c.tag("cmdline-generated-option-table");
			frg::parse_arguments(line, GenTable{tg});
		} else if(variant == 4) {
			// a table with entries that have no callback (reserved names): a matching token must end in the library's assertion, not in a call through null
			frg::array args = { frg::option{"a", frg::option::fn_type{nullptr, nullptr, false}}, frg::option{"1", frg::option::fn_type{nullptr, nullptr, true}}, frg::option{"aa", frg::store_true(tg->b1)},
				frg::option{"a1", frg::as_number(tg->u)} };
			c.tag("cmdline-null-callback-table");
			frg::parse_arguments(line, args);
		} else {
			frg::array args = { frg::option{"n", frg::as_number(tg->i)}, frg::option{"n", frg::as_number(tg->q)}, frg::option{"", frg::store_false(tg->b1)} };
			frg::parse_arguments(line, args);
		}
	}); how_ == 1) panicked = true; else if(how_ == 2) throw Discard{"output longer than 64 KiB"};
	VCHECK(c, "C20", tg->ok(), "parse_arguments wrote outside the option targets (canary damaged)");
	for(auto *sv : {&tg->sv1, &tg->sv2}) {
		if(sv->size() == 0 && (sv->data() == nullptr)) continue;
		VCHECK(c, "C20", sv->data() >= buf && sv->size() <= in.size() && sv->data() + sv->size() <= buf + in.size(),
				"a string_view option target [%p, +%zu) lies outside the command line buffer [%p, +%zu)", (const void *)sv->data(), sv->size(), (const void *)buf, in.size());
	}
	c.nontrivial = in.find_first_of("\" =") != std::string::npos && in.size() >= 2;
	c.tag("parser-cmdline"); if(in.find('"') != std::string::npos) c.tag("cmdline-quote");
	int quotes = 0; for(char ch : in) if(ch == '"') quotes++; if(quotes % 2) c.tag("cmdline-unbalanced-quote");
}

void run_to_number(Ctx &c, const std::string &in, unsigned variant) {
	c.op("to_number \"%s\" (type %u)", show(in).c_str(), variant);
	const char *buf = exact(c, in, false);
	frg::string_view v(buf, in.size());
	if(int how_ = guarded([&] {
		switch(variant) {
		case 0: { auto r = v.to_number<int>(); (void)(bool)r; break; }
		case 1: { auto r = v.to_number<unsigned>(); (void)(bool)r; break; }
		case 2: { auto r = v.to_number<long>(); (void)(bool)r; break; }
		case 3: { auto r = v.to_number<uint64_t>(); (void)(bool)r; break; }
		case 4: { auto r = v.to_number<short>(); (void)(bool)r; break; }
		default: { auto r = v.to_number<signed char>(); (void)(bool)r; break; }
		}
		// the same input as a view of wider character types; bytes >= 0x80 become the extremes of the type (most negative / largest code units)
		{
			auto widen = [&](auto tag) { using Ch = decltype(tag); size_t n = in.size(); Ch *p = (Ch *)malloc(n * sizeof(Ch) + 1); c.arena.push_back({p, nullptr});
				for(size_t i = 0; i < n; i++) { unsigned char b = (unsigned char)in[i]; Ch u = (Ch)b;
					if(b >= 0x80) { using U = std::make_unsigned_t<Ch>; U top = (U)((U)1 << (8 * sizeof(Ch) - 1)); u = (Ch)((b & 1) ? (U)(top + (U)(b & 0x3f)) : (b & 2) ? (U)~(U)0 - (U)(b & 0x3f) : (U)(top - 1 - (U)(b & 0x3f))); }
					p[i] = u; }
				return frg::basic_string_view<Ch>(p, n); };
			auto w = widen(wchar_t{}); auto r1 = w.to_number<int>(); (void)(bool)r1; auto r2 = w.to_number<uint64_t>(); (void)(bool)r2;
			auto i32 = widen(int{}); auto r3 = i32.to_number<long>(); (void)(bool)r3;
			auto i64 = widen((long long)0); auto r4 = i64.to_number<int>(); (void)(bool)r4;
			auto u16 = widen(char16_t{}); auto r5 = u16.to_number<short>(); (void)(bool)r5;
			auto u32 = widen(char32_t{}); auto r6 = u32.to_number<unsigned>(); (void)(bool)r6;
			bool digits = !in.empty(); for(unsigned char ch : in) if(ch < '0' || ch > '9') digits = false;
			if(digits && in.size() <= 9) { unsigned long long ev = strtoull(in.c_str(), nullptr, 10); VCHECK(c, "C20", r2 && *r2 == ev && r6 && *r6 == ev, "to_number on a wide view of \"%s\" differs from the narrow result", in.c_str()); }
			c.tag("to_number-wide-views");
		}
	}); how_ == 1) panicked = true; else if(how_ == 2) throw Discard{"output longer than 64 KiB"};
	bool digits = !in.empty(); for(unsigned char ch : in) if(ch < '0' || ch > '9') digits = false;
	c.nontrivial = in.size() >= 2;
	c.tag("parser-to_number"); if(digits && in.size() >= 10) c.tag("to_number-long-digits");
}
} // namespace

void verif_case(Ctx &c) {
	auto &t = c.t;
	unsigned sel = t.next();
	unsigned parser = sel % 4, variant = (sel / 4) % 6;
	std::string in;
	// Elements below 256 are literal bytes (enumerator, libFuzzer, replay of byte inputs). Larger
	// elements come from the rapidcheck front end: three quarters of them are mapped onto the
	// parser's syntactically relevant characters so that the search reaches the parser's states.
	static const char *alpha[4] = {"%%%$*.-+ #0'123456789lhzjtdiuoxXcspn", "{{{}}}::0123456789bcdioxX", "\"\"   ==a1fobzquxpth", "0123456789999a-+ "};
	size_t alen = strlen(alpha[parser]);
	static const char *tokens[] = {"2147483647", "2147483648", "2147483649", "4294967295", "4294967296", "9223372036854775807", "9223372036854775808", "18446744073709551615", "18446744073709551616", "32767", "32768", "255", "256", "127", "128"};
	bool long_run = false;
	while(!t.done()) {
		uint32_t e = t.next();
		if(e >= 256 && (e & 0x3f00) == 0x3f00) { in += tokens[(e >> 16) % 15]; continue; }      // occasionally a whole boundary number
		if(e >= 256 && (e & 0x3e00) == 0x3c00) {      // a run of ordinary characters whose length lies around a power of two (internal buffers), optionally followed by a meta token
			static const unsigned base[] = {16, 32, 64, 64, 128, 256, 512, 1024, 62};
			static const char *meta[4][6] = {{"%", "%%", "%d", "%5", "%*", "%1$"}, {"{{", "}}", "{", "{}", "{0}", "{:"}, {"\"", "=", " ", "a=", "\"\"", " a"}, {"9", "-", "+", "0", " ", "99"}};
			unsigned L = base[(e >> 16) % 9] + (e >> 20) % 5 - 2;
			in += std::string(L, "ab x"[(e >> 24) & 3]);
			if((e >> 26) & 1) in += meta[parser][(e >> 27) % 6];
			long_run = true;
			continue;
		}
		in.push_back(e < 256 || (e & 0x300) == 0 ? (char)(e & 0xff) : alpha[parser][(e >> 10) % alen]);
	}
	if(in.size() > 4096) in.resize(4096);
	if(long_run) c.tag("long-literal-run");
	panicked = false;
	switch(parser) {
	case 0: run_printf(c, in, variant % 3); break;
	case 1: run_fmt(c, in, variant % 3); break;
	case 2: run_cmdline(c, in, variant % 6); break;
	default: run_to_number(c, in, variant); break;
	}
	c.check_san("C20");
	if(panicked) { stats().panics_allowed++; c.tag("ended-in-frg_panic"); } else c.tag("completed");
}

#ifdef VERIF_LIBFUZZER
extern "C" int LLVMFuzzerTestOneInput(const uint8_t *data, size_t size) {
	std::vector<uint32_t> tape(size);
	for(size_t i = 0; i < size; i++) tape[i] = data[i];
	verif::Outcome o = verif::run_one(tape.data(), tape.size());
	if(o.code == 1) {
		verif::record_failure(tape.data(), tape.size(), o);
		verif::flush_stats();
		fprintf(stderr, "VERIF-FAIL property=%s %s\n", o.prop.c_str(), o.msg.c_str());
		__builtin_trap();
	}
	if((verif::stats().cases & 0xffff) == 0) verif::flush_stats();
	return 0;
}
#endif

// every string up to a bounded length over the reduced alphabets of syntactically relevant characters
void verif_enum(Enum &e) {
	bool th = e.tier == "thorough";
	auto all = [&](uint32_t sel, const std::string &alphabet, unsigned maxlen, const char *name) -> bool {
		uint64_t count = 0;
		std::vector<uint32_t> idx;
		for(unsigned len = 0; len <= maxlen; len++) {
			idx.assign(len, 0);
			while(true) {
				std::vector<uint32_t> tape{sel};
				for(uint32_t i : idx) tape.push_back((unsigned char)alphabet[i]);
				if(!e.run(tape)) return false;
				count++;
				int k = (int)len - 1;
				while(k >= 0) { if(++idx[k] < alphabet.size()) break; idx[k] = 0; k--; }
				if(k < 0) break;
			}
		}
		e.scope(name, count);
		return true;
	};
	if(!all(0, "%$*.-+01 9lhdscx'#", th ? 5 : 4, "printf_format: all strings over \"%$*.-+01 9lhdscx'#\" up to the bound")) return;
	if(!all(0 + 8, "%$*.-1lsc", th ? 5 : 4, "printf_format with null pointer arguments: all strings over \"%$*.-1lsc\" up to the bound")) return;
	if(!all(1, "{}:019xc", th ? 6 : 5, "fmt: all strings over \"{}:019xc\" up to the bound")) return;
	if(!all(1 + 4, "{}:019xc", 4, "fmt without arguments: all strings over \"{}:019xc\" up to length 4")) return;
	if(!all(2, "\" =a1", th ? 8 : 7, "parse_arguments (table 0): all strings over '\" =a1' up to the bound")) return;
	if(!all(2 + 8, "\" =foqux1", th ? 6 : 5, "parse_arguments (joined tables): all strings over '\" =foqux1' up to the bound")) return;
	if(!all(2 + 20, "\" =a1", th ? 7 : 6, "parse_arguments (option table generated on the fly): all strings over '\" =a1' up to the bound")) return;
	if(!all(2 + 16, "\" =a1", th ? 7 : 6, "parse_arguments (table with null callbacks): all strings over '\" =a1' up to the bound")) return;
	for(uint32_t ty = 0; ty < 6; ty++) if(!all(3 + 4 * ty, "09a", 6, "to_number: all strings over \"09a\" up to length 6")) return;
	// long digit strings (overflow of every target type)
	uint64_t count = 0;
	for(uint32_t ty = 0; ty < 6; ty++) for(char d : {'1', '9'}) for(unsigned len : {1u, 2u, 3u, 4u, 5u, 6u, 8u, 9u, 10u, 11u, 12u, 18u, 19u, 20u, 21u, 22u, 40u}) {
		std::vector<uint32_t> tape{3 + 4 * ty}; for(unsigned i = 0; i < len; i++) tape.push_back(d);
		if(!e.run(tape)) return; count++;
		std::vector<uint32_t> t2{0, '%'}; for(unsigned i = 0; i < len; i++) t2.push_back(d); t2.push_back('d');      // printf width
		if(!e.run(t2)) return; count++;
		std::vector<uint32_t> t3{0, '%', '.'}; for(unsigned i = 0; i < len; i++) t3.push_back(d); t3.push_back('d');  // printf precision
		// (a precision of 10^7..10^10 makes print_digits count that far before it prints: seconds per case, no new behaviour)
		if(len <= 6 || len >= 11) { if(!e.run(t3)) return; count++; }
		std::vector<uint32_t> t4{1, '{', ':'}; for(unsigned i = 0; i < len; i++) t4.push_back(d); t4.push_back('}');  // fmt width
		if(!e.run(t4)) return; count++;
		std::vector<uint32_t> t5{2, '1', '='}; for(unsigned i = 0; i < len; i++) t5.push_back(d);                      // cmdline number
		if(!e.run(t5)) return; count++;
	}
	e.scope("digit runs of 17 lengths between 1 and 40 as to_number input, printf width/precision, fmt width, cmdline number", count);
	// the neighbours of every type limit, in every numeric position
	count = 0;
	static const char *limits[] = {"127", "128", "129", "255", "256", "32767", "32768", "32769", "65535", "65536", "2147483647", "2147483648", "2147483649", "4294967295", "4294967296", "4294967297",
		"9223372036854775807", "9223372036854775808", "9223372036854775809", "18446744073709551615", "18446744073709551616", "18446744073709551617", "02147483648", "00000000002147483649"};
	for(const char *lim : limits) {
		std::vector<uint32_t> digits; for(const char *p = lim; *p; p++) digits.push_back((unsigned char)*p);
		auto with = [&](std::vector<uint32_t> pre, std::vector<uint32_t> post) { std::vector<uint32_t> tp = pre; tp.insert(tp.end(), digits.begin(), digits.end()); tp.insert(tp.end(), post.begin(), post.end()); bool ok = e.run(tp); count++; return ok; };
		for(uint32_t ty = 0; ty < 6; ty++) if(!with({3 + 4 * ty}, {})) return;
		if(!with({0, '%'}, {'d'})) return;
		if(!with({0, '%', '.'}, {'s'})) return;
		if(!with({0, '%', '-'}, {'c'})) return;
		for(uint32_t v = 0; v < 3; v++) { if(!with({1 + 4 * v, '{', ':'}, {'}'})) return; if(!with({1 + 4 * v, '{', ':', '0'}, {'x', '}'})) return; if(!with({1 + 4 * v, '{'}, {'}'})) return; if(!with({1 + 4 * v, '{', '0', ':'}, {'X', '}'})) return; }
		if(!with({2, '1', '='}, {})) return; if(!with({2, 'a', 'a', '='}, {' ', 'a'})) return; if(!with({2, 'a', '1', '='}, {})) return; if(!with({2 + 12, 'n', '='}, {})) return;
	}
	e.scope("neighbours of every integer type limit (incl. leading zeros) in every numeric position of the four parsers", count);
	// every order of up to four positional directives over positions 1..3 (descending, ascending, up-down-up, repeats): with an argument
	// area of exactly max-position slots a re-fetch of an argument beyond the ones named is an out-of-bounds read
	count = 0;
	for(unsigned len = 1; len <= 4; len++) {
		unsigned total = 1; for(unsigned i = 0; i < len; i++) total *= 3;
		for(unsigned code = 0; code < total; code++) for(char conv : {'d', 's'}) for(uint32_t variant : {0u, 2u}) {
			std::vector<uint32_t> tape{0 + 4 * variant};
			unsigned x = code; for(unsigned i = 0; i < len; i++) { tape.push_back('%'); tape.push_back('1' + x % 3); tape.push_back('$'); tape.push_back((unsigned char)conv); x /= 3; }
			if(!e.run(tape)) return; count++;
		}
	}
	e.scope("printf_format: every sequence of up to four positional directives over the positions 1..3 with an exact-size argument area", count);
	// runs of ordinary characters of EVERY length up to a bound (and around larger powers of two), followed by each meta token and a tail:
	// a parser that collects text in an internal buffer is probed at every fill level
	count = 0;
	{
		std::vector<unsigned> lens; for(unsigned L = 0; L <= (th ? 1100u : 300u); L++) lens.push_back(L);
		for(unsigned b : {512u, 1024u, 2048u, 4096u}) for(int d = -3; d <= 3; d++) if(b + d > (th ? 1100u : 300u) && b + d <= 4090) lens.push_back(b + d);
		struct M { uint32_t sel; const char *tok; };
		static const M metas[] = {{1, "{{"}, {1, "}}"}, {1, "{}"}, {1, "{0}"}, {1, "{"}, {1 + 4, "{{"}, {0, "%%"}, {0, "%d"}, {0, "%5s"}, {0, "%"}, {2, "="}, {2, "\""}, {2, " a=1 "}, {2 + 4, "=\""}, {3, "9"}, {3 + 12, "9"}};
		for(unsigned L : lens) for(const M &m : metas) for(char fill : {'a', '0'}) {
			if((m.sel & 3) == 3 && fill == 'a') continue;
			if((m.sel & 3) != 3 && fill == '0' && L > 64) continue;
			std::vector<uint32_t> tape{m.sel}; for(unsigned i = 0; i < L; i++) tape.push_back((unsigned char)fill);
			for(const char *q = m.tok; *q; q++) tape.push_back((unsigned char)*q);
			for(char ch : {'b', 'c', 'd'}) tape.push_back((unsigned char)ch);
			if(!e.run(tape)) return; count++;
		}
	}
	e.scope("runs of ordinary characters of every length 0..bound (and around 512/1024/2048/4096) x 16 meta tokens of the four parsers, followed by a tail", count);
}
