// C05: frg::slab_pool<Policy, sched_mutex> used by several threads under a harness-owned
// scheduler, TSan build. Schedule points are the pool's lock operations (and the mailbox atomics
// of the client); plain accesses are covered by TSan's race detection.
// The client is a correct one: a block is handed to another thread through release/acquire
// mailbox slots before that thread frees it.
#include <new>
#include <atomic>
#include <vector>
#include <map>
#include <string>
#include <algorithm>
#include <cstring>
#include <sys/mman.h>
#include "../engine/verif_atomic.hpp"
#include "../engine/verif_atomic_begin.hpp"
#include <frg/slab.hpp>
#include "../engine/verif_atomic_end.hpp"
#include "../engine/verif.hpp"

const char *verif_harness = "slab_conc";
using namespace verif;
// frees the storage of an object created with `new T` without running its destructor (scratch pools are abandoned, not torn down)
template<typename T> void raw_delete(T *p) { if constexpr(alignof(T) > __STDCPP_DEFAULT_NEW_ALIGNMENT__) ::operator delete((void *)p, std::align_val_t(alignof(T))); else ::operator delete((void *)p); }

namespace {
constexpr size_t ARENA = size_t(1) << 30;
char *arena_base() {
	static char *a = [] {
		void *p = mmap(nullptr, ARENA + (size_t(1) << 20), PROT_READ | PROT_WRITE, MAP_PRIVATE | MAP_ANONYMOUS | MAP_NORESERVE, -1, 0);
		if(p == MAP_FAILED) { perror("mmap"); abort(); }
		return (char *)(((uintptr_t)p + (size_t(1) << 20) - 1) & ~((uintptr_t(1) << 20) - 1));
	}();
	return a;
}
struct Region { uintptr_t base; size_t len; bool mapped; bool slab; int klass; bool held_large = false; };
struct World {
	size_t bump = 0;
	std::vector<Region> regions;
	std::string error;
	size_t page = 0x1000, sb = 0, slabsize = 0;
	unsigned map_calls = 0, unmap_calls = 0, poison_calls = 0;
	std::vector<int> constructing;          // per class: threads currently between "found the class empty" and slab attached
	unsigned concurrent_slab_construction = 0, cross_thread_frees = 0, switches_in_call = 0;
	struct Live { size_t req, rep; int owner; uint32_t seed; };
	std::map<uintptr_t, Live> live;
	void *pool = nullptr;
	std::vector<std::vector<void *>> reserve;   // per thread: blocks the policy may free from inside unmap (re-entry)
	bool reentrant = false;
	uint64_t fail_mask = 0; unsigned failed_maps = 0;      // Policy::map ordinals that return 0 (fault plan)
	void err(const char *fmt, ...) __attribute__((format(printf, 2, 3))) { if(!error.empty()) return; char b[300]; va_list ap; va_start(ap, fmt); vsnprintf(b, sizeof b, fmt, ap); va_end(ap); error = b; }
};
World *W = nullptr;
thread_local int inflight_class = -1;
thread_local bool inflight_small = false;
thread_local int mapped_slab_for = -1;     // class for which this thread's call in flight has mapped a slab

template<typename Pool> void reenter_free(void *p);

struct PolCore {
	uintptr_t map_impl(size_t len, size_t align) {
		dsched::point();                 // the policy is a place where other threads may run
		dsched::Ignore ig;
		unsigned ordinal = W->map_calls++;
		if((W->fail_mask >> (ordinal % 64)) & 1) { W->failed_maps++; return 0; }
		if(dsched::sched_mutex::held_count()) W->err("Policy::map called while the calling thread holds %d pool lock(s)", dsched::sched_mutex::held_count());
		uintptr_t a = (uintptr_t)arena_base() + W->bump;
		a = (a + W->page - 1) & ~(uintptr_t)(W->page - 1);
		if(align) a = (a + align - 1) & ~(uintptr_t)(align - 1);
		else { uintptr_t s = (a + W->sb - 1) & ~(uintptr_t)(W->sb - 1); a = s + ((W->map_calls % 3) * 2 * W->page) % W->sb; }
		W->bump = a + len - (uintptr_t)arena_base();
		if(W->bump > ARENA) { W->err("harness arena exhausted"); return 0; }
		W->regions.push_back(Region{a, len, true, inflight_small, inflight_class});
		if(inflight_small && inflight_class >= 0) {
			if(W->constructing[inflight_class]++ > 0) W->concurrent_slab_construction++;
			mapped_slab_for = inflight_class;
		}
		return a;
	}
	void unmap_impl(uintptr_t base, size_t len);
};
#define SIZES(P, S, B, N) static constexpr size_t pagesize = P, slabsize = S, sb_size = B; static constexpr int num_buckets = N;
struct PA : PolCore { SIZES(0x1000, 0x4000, 0x4000, 9) uintptr_t map(size_t len, size_t align) { return map_impl(len, align); } void unmap(uintptr_t b, size_t l) { unmap_impl(b, l); } };
// PB also has the poison hooks. They are places where other threads may run, and poison() must never cover bytes of a block that a
// client owns at that moment (a block that was handed out again before the freeing call got round to poisoning it).
struct PB : PolCore { SIZES(0x1000, 0x8000, 0x8000, 11) uintptr_t map(size_t len) { return map_impl(len, 0); } void unmap(uintptr_t b, size_t l) { unmap_impl(b, l); }
	void poison(void *p, size_t n) {
		dsched::point();
		dsched::Ignore ig;
		uintptr_t a = (uintptr_t)p;
		for(auto &kv : W->live) if(a < kv.first + kv.second.req && kv.first < a + n) { W->err("Policy::poison(%p, %zu) covers bytes of the live block at %#lx (owned by thread %d): it was handed out again before the call that freed it poisoned it", p, n, (unsigned long)kv.first, kv.second.owner); break; }
		W->poison_calls++;
	}
	void unpoison(void *, size_t) { }
	void unpoison_expand(void *, size_t) { }
};
using PoolA = frg::slab_pool<PA, dsched::sched_mutex>;
using PoolB = frg::slab_pool<PB, dsched::sched_mutex>;
int g_cfg = 0;

void PolCore::unmap_impl(uintptr_t base, size_t len) {
	dsched::point();
	void *victim = nullptr;
	{
		dsched::Ignore ig;
		W->unmap_calls++;
		if(dsched::sched_mutex::held_count()) W->err("Policy::unmap called while the calling thread holds %d pool lock(s)", dsched::sched_mutex::held_count());
		bool found = false;
		for(auto &r : W->regions) if(r.base == base) { found = true; if(!r.mapped) W->err("unmap of a region that is not mapped"); if(r.len != len) W->err("unmap(%#lx, %zu): mapped with %zu", (unsigned long)base, len, r.len); r.mapped = false; }
		if(!found) W->err("unmap(%#lx, %zu) of memory that was never mapped", (unsigned long)base, len);
		for(auto &kv : W->live) if(kv.first >= base && kv.first < base + len) W->err("unmap while the live block at %#lx lies inside", (unsigned long)kv.first);
		if(W->reentrant && dsched::tid >= 0 && !W->reserve[dsched::tid].empty()) { victim = W->reserve[dsched::tid].back(); W->reserve[dsched::tid].pop_back(); W->live.erase((uintptr_t)victim); }
	}
	// a policy may itself use the pool: free one of this thread's blocks from inside unmap
	if(victim) { if(g_cfg == 0) static_cast<PoolA *>(W->pool)->free(victim); else static_cast<PoolB *>(W->pool)->free(victim); }
}

size_t class_size(int k) { return k < 4 ? (size_t(8) << k) : (size_t(64) << (k - 3)); }
int class_of(size_t n, int nb) { if(!n) n = 1; for(int k = 0; k < nb; k++) if(n <= class_size(k)) return k; return -1; }
unsigned char pat(uint32_t seed, size_t off) { return (unsigned char)((seed * 2654435761u + off * 40503u) >> 7); }

struct Op { unsigned kind; size_t size; unsigned arg; };

template<typename Pool, typename Pol>
void run(Ctx &c, int nb) {
	auto &t = c.t;
	World w; W = &w;
	w.page = Pol::pagesize; w.sb = Pol::sb_size; w.slabsize = Pol::slabsize; w.constructing.assign(nb, 0);
	Pol pol;
	Pool *pool = new (c.raw(sizeof(Pool), alignof(Pool))) Pool(pol);
	w.pool = pool;
	unsigned nthreads = 2 + t.pick(c.focus() == "C05" && config().tier == "thorough" ? 7 : 3);
	w.reentrant = t.pick(3) == 0;
	uint64_t fail_mask = t.pick(3) == 0 ? (t.next64() & t.next64() & t.next64()) : 0;     // ~1/8 of the map calls fail in a third of the cases
	w.reserve.assign(nthreads, {});
	size_t maxc = class_size(nb - 1);
	static const size_t hot[] = {16, 64, 2048};
	unsigned tmpl = t.pick(4);     // 0 random, 1 everybody starts on the same empty class, 2 one thread frees into the slab another drains, 3 large-heavy
	std::vector<std::vector<Op>> scripts(nthreads);
	for(unsigned k = 0; k < nthreads; k++) {
		unsigned n = 1 + t.pick(10);
		if(tmpl == 1) scripts[k].push_back(Op{0, maxc, 0});
		for(unsigned i = 0; i < n; i++) {
			unsigned kind = t.pick(8);
			size_t sz;
			switch(t.pick(6)) { case 0: sz = maxc; break; case 1: sz = maxc + 1 + t.pick(3000); break; case 2: sz = t.pick(300); break; default: sz = hot[t.pick(3)]; break; }
			if(tmpl == 3 && t.flip()) sz = maxc + 1 + t.pick(20000);
			scripts[k].push_back(Op{kind, sz, (unsigned)t.pick(64)});
		}
	}
	{ std::string s; for(unsigned k = 0; k < nthreads; k++) { s += " t" + std::to_string(k) + ":"; for(auto &o : scripts[k]) { static const char *nm[] = {"alloc", "alloc", "alloc", "free", "free", "realloc", "send", "recv"}; s += std::string(" ") + nm[o.kind] + "(" + std::to_string(o.size) + ")"; } }
	  c.op("cfg %d, %u threads, template %u%s%s;%s", g_cfg, nthreads, tmpl, w.reentrant ? ", re-entrant policy" : "", fail_mask ? ", map() fault plan" : "", s.c_str()); }
	std::verif_atomic<void *> mail[4];
	for(auto &m : mail) m.a.store(nullptr, std::memory_order_relaxed);
	// sequential prelude: reserve blocks for the re-entrant policy
	if(w.reentrant) for(unsigned k = 0; k < nthreads; k++) for(int i = 0; i < 2; i++) { inflight_small = true; inflight_class = class_of(24, nb); void *p = pool->allocate(24); inflight_small = false; inflight_class = -1; mapped_slab_for = -1; w.constructing.assign(nb, 0); w.reserve[k].push_back(p); w.live[(uintptr_t)p] = World::Live{24, pool->get_size(p), (int)k, 0}; }

	w.fail_mask = fail_mask; w.map_calls = 0;
	auto body = [&](unsigned k) {
		std::vector<void *> mine;
		auto check_new = [&](void *p, size_t req, uint32_t seed, const char *what) {
			size_t rep = pool->get_size(p);
			{
				dsched::Ignore ig;
				uintptr_t a = (uintptr_t)p;
				if(!p) { w.err("%s returned null", what); return; }
				bool inside = false; for(auto &r : w.regions) if(r.mapped && a >= r.base && a + std::max<size_t>(req, 1) <= r.base + r.len && a + rep <= r.base + r.len) { inside = true; if(class_of(req, nb) < 0) r.held_large = true; }
				if(!inside) w.err("%s: block %#lx (+%zu) lies in no mapped region", what, (unsigned long)a, rep);
				if(rep < req) w.err("%s: reported size %zu < requested %zu", what, rep, req);
				size_t al = std::min(w.page, std::max<size_t>(8, req <= 1 ? 1 : (size_t(1) << (64 - __builtin_clzl(req - 1)))));
				if(a & (al - 1)) w.err("%s: %#lx is not aligned to %zu", what, (unsigned long)a, al);
				auto it = w.live.lower_bound(a);
				if(it != w.live.end() && it->first < a + rep) w.err("%s: thread %u got [%#lx,+%zu) which overlaps the live block at %#lx owned by thread %d (handed out twice)", what, k, (unsigned long)a, rep, (unsigned long)it->first, it->second.owner);
				if(it != w.live.begin()) { auto pv = std::prev(it); if(pv->first + pv->second.rep > a) w.err("%s: thread %u got [%#lx,+%zu) which overlaps the live block at %#lx owned by thread %d", what, k, (unsigned long)a, rep, (unsigned long)pv->first, pv->second.owner); }
				w.live[a] = World::Live{req, rep, (int)k, seed};
			}
			size_t n = std::min<size_t>(rep, 256);
			for(size_t i = 0; i < n; i++) ((unsigned char *)p)[i] = pat(seed, i);       // plain writes into the block: TSan sees a block shared by mistake
		};
		auto verify_and_forget = [&](void *p, const char *what) -> World::Live {
			World::Live l; { dsched::Ignore ig; l = w.live[(uintptr_t)p]; }
			size_t n = std::min<size_t>(l.rep, 256);
			for(size_t i = 0; i < n; i++) if(((unsigned char *)p)[i] != pat(l.seed, i)) { dsched::Ignore ig; w.err("%s: byte %zu of the block at %p changed while it was live (thread %u)", what, i, p, k); break; }
			{ dsched::Ignore ig; if(l.owner != (int)k) w.cross_thread_frees++; w.live.erase((uintptr_t)p); }
			return l;
		};
		uint32_t seed = k * 1000 + 1;
		for(auto &o : scripts[k]) {
			uint64_t sw0; { dsched::Ignore ig; sw0 = dsched::S().switches; }
			switch(o.kind) {
			case 0: case 1: case 2: { int kl = class_of(o.size, nb); inflight_class = kl; inflight_small = kl >= 0; void *p = pool->allocate(o.size);
				{ dsched::Ignore ig; if(mapped_slab_for >= 0) { w.constructing[mapped_slab_for]--; mapped_slab_for = -1; } }
				inflight_class = -1; inflight_small = false;
				if(!p) { dsched::Ignore ig; if(!w.failed_maps) w.err("allocate(%zu) returned null although no map() call failed", o.size); break; }
				check_new(p, o.size, seed++, "allocate"); mine.push_back(p); break; }
			case 3: case 4: if(!mine.empty()) { size_t i = o.arg % mine.size(); void *p = mine[i]; mine.erase(mine.begin() + i); auto l = verify_and_forget(p, "free"); if(o.kind == 3) pool->free(p); else pool->deallocate(p, l.req); } break;
			case 5: if(!mine.empty()) { size_t i = o.arg % mine.size(); void *p = mine[i]; World::Live before; { dsched::Ignore ig; before = w.live[(uintptr_t)p]; } auto l = verify_and_forget(p, "realloc"); int kl = class_of(o.size ? o.size : 1, nb); inflight_class = kl; inflight_small = kl >= 0;
				void *q = pool->realloc(p, o.size ? o.size : 1); inflight_class = -1; inflight_small = false;
				{ dsched::Ignore ig; if(mapped_slab_for >= 0) { w.constructing[mapped_slab_for]--; mapped_slab_for = -1; } }
				if(!q) {   // map() failed: the old block must still be ours, untouched
					{ dsched::Ignore ig; if(!w.failed_maps) w.err("realloc returned null although no map() call failed"); w.live[(uintptr_t)p] = before; }
					size_t n0 = std::min<size_t>(before.rep, 256);
					for(size_t j = 0; j < n0; j++) if(((unsigned char *)p)[j] != pat(before.seed, j)) { dsched::Ignore ig; w.err("realloc failed (map returned 0) and byte %zu of the old block changed", j); break; }
					break;
				}
				size_t keep = std::min<size_t>(std::min(l.req, o.size ? o.size : 1), 256);
				for(size_t j = 0; j < keep; j++) if(((unsigned char *)q)[j] != pat(l.seed, j)) { dsched::Ignore ig; w.err("realloc: byte %zu differs from the old contents", j); break; }
				check_new(q, o.size ? o.size : 1, seed++, "realloc"); mine[i] = q; } break;
			case 6: if(!mine.empty()) { void *p = mine.back(); void *old = mail[o.arg % 4].exchange(p, std::memory_order_acq_rel); mine.pop_back(); if(old) mine.push_back(old); } break;      // hand a block to whoever takes it
			default: { void *p = mail[o.arg % 4].exchange(nullptr, std::memory_order_acq_rel); if(p) mine.push_back(p); break; }
			}
			{ dsched::Ignore ig; if(dsched::S().switches != sw0) w.switches_in_call++; }
		}
		for(void *p : mine) { verify_and_forget(p, "final free"); pool->free(p); }
	};
	std::vector<std::function<void()>> bodies;
	for(unsigned k = 0; k < nthreads; k++) bodies.push_back([&, k] { try { body(k); } catch(Panic &p) { dsched::Ignore ig; w.err("frg_panic on a valid history: %s", p.msg.c_str()); } });
	unsigned smode = dsched::pick_mode(t); c.tagf("sched-mode-%u", smode & 0xff); if(smode & 0x100) c.tag("sched-mode-window-hunting");
	auto choose = dsched::make_chooser(t, smode);
	auto r = dsched::run(bodies, choose, 150000);
	VCHECK(c, "C05", r.verdict != "deadlock", "deadlock: no thread can make a step after %llu schedule points (a pool call blocks forever)", (unsigned long long)r.steps);
	VCHECK(c, "C05", r.verdict.empty(), "the threads did not finish within %llu schedule points", (unsigned long long)r.steps);
	VCHECK(c, "C05", w.error.empty(), "%s", w.error.c_str());
	c.check_san("C05");
	w.fail_mask = 0;
	if(w.failed_maps) c.tag("map-failure-under-concurrency");
	// quiescent consistency: free what is left in the mailboxes and the reserves, then compare the accounting
	for(auto &m : mail) if(void *p = m.a.load()) { w.live.erase((uintptr_t)p); pool->free(p); }
	for(auto &rv : w.reserve) for(void *p : rv) { w.live.erase((uintptr_t)p); pool->free(p); }
	VCHECK(c, "C05", w.error.empty(), "%s", w.error.c_str());
	VCHECK(c, "C05", w.live.empty(), "harness: %zu blocks still live", w.live.size());
	long expect = 0;
	for(auto &rg : w.regions) if(rg.mapped) {
		VCHECK(c, "C05", !rg.held_large, "after every block was freed the %zu-byte reservation of a large block is still mapped", rg.len);
		size_t item = class_size(rg.klass), overhead = 0; while(overhead < 64) overhead += item;     // lower bound of the header; the page count is insensitive to it except for classes >= a page
		(void)overhead;
	}
	// page accounting at quiescence. What a region is charged with is the pool's business (C03 only says that the same amount comes off
	// again); a sequential scratch pool is asked what it charges for the first and for the second slab of each class that is still
	// mapped. If the charge is the same for both, the counter must equal the sum over the mapped slabs exactly; if it varies from slab
	// to slab (slab colouring), or memory that is no slab of a class stays mapped, only the bounds 1 page <= charge <= len/page + 1 hold.
	{
		std::map<int, unsigned> slabs; bool exact = true; long lo = 0, hi = 0;
		for(auto &rg : w.regions) if(rg.mapped) { lo += 1; hi += (long)(rg.len / w.page) + 1; if(rg.slab && rg.klass >= 0) slabs[rg.klass]++; else exact = false; }
		World scratch; scratch.page = w.page; scratch.sb = w.sb; scratch.slabsize = w.slabsize; scratch.constructing.assign(nb, 0); scratch.bump = w.bump + (8u << 20);
		World *saved = W; W = &scratch;
		for(auto &kv : slabs) {
			Pol p2; Pool *pl = new Pool(p2); inflight_small = true; inflight_class = kv.first;
			pl->allocate(class_size(kv.first)); long first = (long)pl->numUsedPages();
			unsigned n = 0; while(scratch.map_calls < 2 && n++ < 70000) pl->allocate(class_size(kv.first));
			long second = (long)pl->numUsedPages() - first;
			inflight_small = false; inflight_class = -1;
			if(scratch.map_calls >= 2 && second != first) exact = false;
			expect += first * kv.second; raw_delete(pl);
			scratch.map_calls = 0;
		}
		W = saved;
		long now = (long)pool->numUsedPages();
		if(exact) VCHECK(c, "C05", now == expect, "after all threads finished and every block was freed numUsedPages() is %ld, the mapped slabs account for %ld", now, expect);
		else { c.tag("page-charge-varies"); VCHECK(c, "C05", now >= lo && now <= hi, "after all threads finished and every block was freed numUsedPages() is %ld, outside the bounds %ld..%ld that the mapped regions allow", now, lo, hi); }
	}
	if(w.concurrent_slab_construction) c.tag("two-threads-constructing-a-slab-of-one-class");
	if(w.cross_thread_frees) c.tag("cross-thread-free");
	if(w.reentrant && w.unmap_calls) c.tag("re-entrant-unmap");
	if(w.poison_calls) c.tag("poison-hooks-under-concurrency");
	c.tagf("threads-%u", nthreads); c.tagf("template-%u", tmpl);
	c.tagf("switches-%s", r.switches < 5 ? "0-4" : r.switches < 20 ? "5-19" : "20+");
	c.nontrivial = w.switches_in_call > 0;
	madvise(arena_base(), std::max(w.bump, size_t(1) << 20) + (16u << 20), MADV_DONTNEED);
	W = nullptr;
}
} // namespace

void verif_case(Ctx &c) {
	g_cfg = c.t.pick(2);
	if(g_cfg == 0) run<PoolA, PA>(c, 9); else run<PoolB, PB>(c, 11);
}

// small-scope exhaustive: 2 threads x 2 operations on one class, all interleavings at lock granularity
void verif_enum(Enum &e) {
	uint64_t cap = e.tier == "thorough" ? 60000 : 4000;
	struct Shape { std::vector<uint32_t> prefix; const char *name; };
	// prefix: cfg, nthreads-2, reentrant (1 = no), fault plan (1 = none), template, then per thread: n-1, (kind, sizepick, [size arg], arg)...
	std::vector<Shape> shapes = {
		{{0, 0, 1, 1, 0, 1, 0, 3, 0, 0, 3, 0, 0, 1, 0, 3, 0, 0, 3, 0, 0}, "2 threads x (allocate 16; free) on one empty class"},
		{{1, 0, 1, 1, 1, 0, 3, 0, 0, 0, 3, 0, 0}, "2 threads start on the same empty largest class, then free"},
	};
	for(auto &sh : shapes) {
		std::vector<uint32_t> choices; bool more = true; uint64_t n = 0;
		while(more && n < cap) {
			std::vector<uint32_t> tape = sh.prefix; tape.push_back(0 /* schedule mode: uniform */); tape.insert(tape.end(), choices.begin(), choices.end());
			if(!e.run(tape)) return;
			n++;
			auto sizes = dsched::S().trace_sizes;
			choices.resize(sizes.size(), 0);
			int i = (int)sizes.size() - 1;
			while(i >= 0 && choices[i] + 1 >= sizes[i]) i--;
			if(i < 0) more = false; else { choices[i]++; choices.resize(i + 1); }
		}
		std::string name = std::string(sh.name) + ": interleavings at lock granularity" + (more ? " (bounded by the run cap, not complete)" : "");
		e.scope(name.c_str(), n);
	}
}
