// unique_ptr / make_unique / unique_memory part of C16 (exactly-once destruction and release).
// Preconditions: operator*/-> only on non-null pointers; a released pointer is owned by the
// caller (the harness destroys and frees it); reset(p) takes ownership of p.
// After a move the source is only required to hold null or the destination's old object.
#include <vector>
#include <cstring>
#include <frg/unique.hpp>
#include <frg/allocation.hpp>
#include "../engine/verif.hpp"
#include "../engine/track.hpp"

const char *verif_harness = "unique_seq";
using namespace verif;
void verif_case_reset() { reg().reset(); }

namespace {
int g_seen_self = 0;
using UP = frg::unique_ptr<Tracked, track_alloc>;
using UM = frg::unique_memory<track_alloc>;

void run_ptr(Ctx &c) {
	auto &t = c.t;
	constexpr int S = 3;
	UP *slot[S]; Tracked *ref[S] = {nullptr, nullptr, nullptr};
	for(int s = 0; s < S; s++) slot[s] = c.make<UP>(track_alloc{});
	c.op("unique_ptr<Tracked>");
	track_alloc a;
	int nextv = 1; bool released = false;
	std::vector<Tracked *> mine;    // released pointers the harness owns
	unsigned nops = 1 + t.pick(30);
	for(unsigned i = 0; i < nops; i++) {
		int s = t.pick(S), d = t.pick(S);
		switch(t.pick(8)) {
		case 0: case 1: { int v = nextv++; c.op("p%d = make_unique(%d)", s, v); if(ref[s]) released = true; *slot[s] = frg::make_unique<Tracked>(track_alloc{}, v); ref[s] = slot[s]->get(); VCHECK(c, "C16", ref[s] && ref[s]->get() == v, "make_unique(%d) holds %d", v, ref[s] ? ref[s]->v : 0); break; }
		case 2: { int v = nextv++; Tracked *p = new (a.allocate(sizeof(Tracked))) Tracked(v); c.op("p%d.reset(new %d)", s, v); if(ref[s]) released = true; slot[s]->reset(p); ref[s] = p; break; }
		case 3: c.op("p%d.reset(nullptr)", s); if(ref[s]) released = true; slot[s]->reset(nullptr); ref[s] = nullptr; break;
		case 4: { c.op("p%d.release()", s); Tracked *p = slot[s]->release(); VCHECK(c, "C16", p == ref[s], "release() returned %p, expected %p", (void *)p, (void *)ref[s]); if(p) mine.push_back(p); ref[s] = nullptr; break; }
		case 5: if(d != s) { c.op("p%d = move(p%d)", d, s); Tracked *od = ref[d], *os = ref[s]; *slot[d] = std::move(*slot[s]);
			VCHECK(c, "C16", slot[d]->get() == os, "move assignment: destination holds %p, expected %p", (void *)slot[d]->get(), (void *)os);
			Tracked *ns = slot[s]->get(); VCHECK(c, "C16", ns == nullptr || ns == od, "move assignment: source holds %p (neither null nor the destination's old object)", (void *)ns);
			if(od && !ns) released = true; ref[d] = os; ref[s] = ns; } break;
		case 6: if(d != s) { c.op("swap(p%d, p%d)", s, d); swap(*slot[s], *slot[d]); std::swap(ref[s], ref[d]); } break;
		default: if(d != s) { c.op("p%d = move-construct(p%d) (replacing)", d, s); if(ref[d]) released = true; c.destroy(slot[d]); Tracked *os = ref[s]; slot[d] = c.make<UP>(std::move(*slot[s]));
			VCHECK(c, "C16", slot[d]->get() == os && slot[s]->get() == nullptr, "move construction: destination %p source %p", (void *)slot[d]->get(), (void *)slot[s]->get()); ref[d] = os; ref[s] = nullptr; } break;
		}
		for(int k = 0; k < S; k++) {
			VCHECK(c, "C16", slot[k]->get() == ref[k] && (bool)*slot[k] == (ref[k] != nullptr), "p%d holds %p, model %p", k, (void *)slot[k]->get(), (void *)ref[k]);
			if(ref[k]) VCHECK(c, "C16", &**slot[k] == ref[k] && slot[k]->operator->() == ref[k] && ref[k]->get() >= 0, "p%d accessors", k);
		}
		VTRACK_POLL(c);
	}
	c.op("destroy all");
	for(int s = 0; s < S; s++) c.destroy(slot[s]);
	for(Tracked *p : mine) { p->~Tracked(); a.free(p); }
	VTRACK_END(c);
	c.nontrivial = released;
	c.tag("unique_ptr");
}

void run_mem(Ctx &c) {
	auto &t = c.t;
	constexpr int S = 3;
	track_alloc *alloc = c.make<track_alloc>();
	UM *slot[S]; size_t sz[S] = {0, 0, 0}; int pat[S] = {0, 0, 0};
	for(int s = 0; s < S; s++) slot[s] = c.make<UM>();
	c.op("unique_memory");
	bool released = false; int nextp = 1;
	unsigned nops = 1 + t.pick(24);
	for(unsigned i = 0; i < nops; i++) {
		int s = t.pick(S), d = t.pick(S);
		switch(t.pick(5)) {
		case 0: case 1: { size_t n = 1 + t.pick(64); c.op("m%d = unique_memory(%zu)", s, n); if(sz[s]) released = true; *slot[s] = UM(*alloc, n); sz[s] = n; pat[s] = nextp++; memset(slot[s]->data(), pat[s], n); break; }
		case 2: if(d != s) { c.op("m%d = move(m%d)", d, s); if(sz[d]) released = true; *slot[d] = std::move(*slot[s]); sz[d] = sz[s]; pat[d] = pat[s]; sz[s] = 0; } break;
		case 3: if(d != s) { c.op("swap(m%d, m%d)", s, d); swap(*slot[s], *slot[d]); std::swap(sz[s], sz[d]); std::swap(pat[s], pat[d]); } break;
		default: if(d != s) { c.op("m%d = move-construct(m%d)", d, s); if(sz[d]) released = true; c.destroy(slot[d]); slot[d] = c.make<UM>(std::move(*slot[s])); sz[d] = sz[s]; pat[d] = pat[s]; sz[s] = 0; } break;
		}
		for(int k = 0; k < S; k++) {
			VCHECK(c, "C16", (bool)*slot[k] == (sz[k] != 0), "m%d: bool is %d, model size %zu", k, (int)(bool)*slot[k], sz[k]);
			if(sz[k]) { VCHECK(c, "C16", slot[k]->size() == sz[k], "m%d: size() is %zu, model %zu", k, slot[k]->size(), sz[k]);
				auto *p = (unsigned char *)slot[k]->data(); for(size_t j = 0; j < sz[k]; j++) VCHECK(c, "C16", p[j] == (unsigned char)pat[k], "m%d: byte %zu changed", k, j); }
		}
		c.check_san("C16");
		VTRACK_POLL(c);
	}
	for(int s = 0; s < S; s++) c.destroy(slot[s]);
	VTRACK_END(c);
	c.nontrivial = released;
	c.tag("unique_memory");
}

// An owned object whose destructor reaches back to its owner (an observer that unregisters itself). std::unique_ptr::reset
// stores the new pointer before it destroys the old object, so during that destructor the owner no longer refers to the
// dying object and a nested reset()/release() on the owner is harmless.
struct Conn;
using UPC = frg::unique_ptr<Conn, track_alloc>;
struct Conn : Tracked {
	UPC *owner = nullptr; int mode = 0; bool dying = false;
	Conn(int v) : Tracked(v) {}
	~Conn();
};
Conn::~Conn() {
	if(dying || !owner) return;
	dying = true;
	if(owner->get() == this) { g_seen_self++; if(mode == 0) owner->reset(nullptr); else if(mode == 1) (void)owner->release(); }
}
void run_reentrant(Ctx &c) {
	auto &t = c.t;
	c.op("unique_ptr<Conn>: destructor of the owned object calls back into the owner");
	c.tag("unique_ptr-reentrant");
	track_alloc a;
	UPC *p = c.make<UPC>(track_alloc{});
	int nextv = 1; bool released = false;
	unsigned nops = 2 + t.pick(8);
	for(unsigned i = 0; i < nops; i++) {
		int mode = t.pick(3);
		bool to_null = t.pick(3) == 0;
		Conn *q = nullptr;
		if(!to_null) { int v = nextv++; q = new (a.allocate(sizeof(Conn))) Conn(v); q->owner = p; q->mode = mode; }
		c.op("p.reset(%s) with the held object in mode %d", q ? "new Conn" : "nullptr", p->get() ? p->get()->mode : -1);
		if(p->get()) released = true;
		g_seen_self = 0;
		p->reset(q);
		VCHECK(c, "C16", g_seen_self == 0, "reset(): while the old object was being destroyed the owner still referred to it (std::unique_ptr::reset stores the new pointer first)");
		VCHECK(c, "C16", p->get() == q, "reset(%p): the owner holds %p", (void *)q, (void *)p->get());
		VTRACK_POLL(c);
	}
	if(p->get()) p->get()->owner = nullptr;       // the owner's own destructor gives no such guarantee
	c.destroy(p);
	VTRACK_END(c);
	c.nontrivial = released;
}
}

namespace {
// unique_ptr<Base> that owns an object of a larger derived class (adopted through unique_ptr(allocator, pointer) / reset(pointer)):
// the block goes back with the size it was allocated with (or through the unsized free()), never with sizeof(Base)
struct PBase : Tracked { PBase(int v) : Tracked(v) {} virtual ~PBase() {} };
struct PDerived : PBase { char payload[136]; PDerived(int v) : PBase(v) { memset(payload, 0x5A, sizeof payload); } };
void run_polymorphic(Ctx &c) {
	auto &t = c.t;
	using UPB = frg::unique_ptr<PBase, track_alloc>;
	c.op("unique_ptr<Base> owning Derived objects");
	c.tag("unique_ptr-polymorphic");
	track_alloc a;
	UPB *p = c.make<UPB>(track_alloc{}), *q = c.make<UPB>(track_alloc{});
	int nextv = 1; bool released = false;
	unsigned nops = 2 + t.pick(8);
	auto fresh = [&]() -> PBase * { int v = nextv++; if(t.flip()) return new (a.allocate(sizeof(PDerived))) PDerived(v); return new (a.allocate(sizeof(PBase))) PBase(v); };
	for(unsigned i = 0; i < nops; i++) {
		switch(t.pick(5)) {
		case 0: case 1: { PBase *n = fresh(); c.op("p.reset(new %s)", dynamic_cast<PDerived *>(n) ? "Derived" : "Base"); if(p->get()) released = true; p->reset(n); break; }
		case 2: { PBase *n = fresh(); c.op("p = unique_ptr(alloc, new %s)", dynamic_cast<PDerived *>(n) ? "Derived" : "Base"); if(p->get()) released = true; *p = UPB(track_alloc{}, n); break; }
		case 3: c.op("q = move(p)"); if(q->get()) released = true; *q = std::move(*p); break;
		default: c.op("p.reset(nullptr)"); if(p->get()) released = true; p->reset(nullptr); break;
		}
		VTRACK_POLL(c);
	}
	c.destroy(p); c.destroy(q);
	VTRACK_END(c);
	c.nontrivial = released;
}
}

void verif_case(Ctx &c) { unsigned k = c.t.pick(5); if(k == 4) { run_polymorphic(c); return; } if(k == 0) run_mem(c); else if(k == 3) run_reentrant(c); else run_ptr(c); }
