// C01-C04: frg::slab_pool single-threaded histories against a policy the harness owns.
//   C01 live blocks valid / big enough / aligned / disjoint          C02 realloc/free semantics,
//   content stability, bounded footprint   C03 policy protocol, page accounting, poisoning
//   C04 tolerance of map() failure at any point (fault plans; enumeration of single and double
//   fault positions in --enum mode)
//
// Preconditions respected by the generator: free/deallocate/realloc/get_size only of live
// blocks (or null), deallocate(p, k) with k <= the size the block was requested/reported with,
// the block's bytes are written by the harness only inside what the pool handed out
// (requested bytes under a poisoning policy, the reported size otherwise).
// Policy configurations are admissible in the sense of C01: at least two objects of the
// largest class fit into a slab.
#include <new>
#include <map>
#include <vector>
#include <string>
#include <algorithm>
#include <sys/mman.h>
#include <frg/slab.hpp>
#include "../engine/verif.hpp"
#include "../engine/inst_mutex.hpp"

#if defined(__SANITIZE_ADDRESS__)          // g++
#  define VERIF_ASAN 1
#elif defined(__has_feature)               // clang++
#  if __has_feature(address_sanitizer)
#    define VERIF_ASAN 1
#  endif
#endif
#ifdef VERIF_ASAN
#include <sanitizer/asan_interface.h>
#else
#define ASAN_POISON_MEMORY_REGION(a, n) ((void)(a), (void)(n))
#define ASAN_UNPOISON_MEMORY_REGION(a, n) ((void)(a), (void)(n))
static inline void *__asan_region_is_poisoned(void *, size_t) { return nullptr; }
static inline int __asan_address_is_poisoned(const volatile void *) { return 0; }
#endif

#ifndef VERIF_HARNESS_NAME
#define VERIF_HARNESS_NAME "slab_seq"
#endif
const char *verif_harness = VERIF_HARNESS_NAME;
using namespace verif;
// frees the storage of an object created with `new T` without running its destructor (scratch pools are abandoned, not torn down)
template<typename T> void raw_delete(T *p) { if constexpr(alignof(T) > __STDCPP_DEFAULT_NEW_ALIGNMENT__) ::operator delete((void *)p, std::align_val_t(alignof(T))); else ::operator delete((void *)p); }

namespace {

// ---- address space ------------------------------------------------------------------------
constexpr size_t ARENA = size_t(1) << 31;
char *arena_base() {
	static char *a = [] {
		void *p = mmap(nullptr, ARENA + (size_t(1) << 20), PROT_READ | PROT_WRITE, MAP_PRIVATE | MAP_ANONYMOUS | MAP_NORESERVE, -1, 0);
		if(p == MAP_FAILED) { perror("mmap"); abort(); }
		uintptr_t u = ((uintptr_t)p + (size_t(1) << 20) - 1) & ~((uintptr_t(1) << 20) - 1);   // 1 MiB aligned
		return (char *)u;
	}();
	return a;
}

struct Region {
	uintptr_t base; size_t len; bool mapped; long inc; bool slab; int klass; uintptr_t hdr; unsigned born_call; bool large_res = false;
};

struct Env {
	Ctx *c = nullptr;
	size_t bump = 0, high = 0;
	std::vector<Region> regions;
	size_t page = 0x1000, slab = 0, sb = 0;
	bool aligned = false, poison = false;
	unsigned rot = 0;
	unsigned map_calls = 0, unmap_calls = 0, failed_maps = 0, callbacks = 0;
	uint64_t fail_mask = 0; int fail_a = -1, fail_b = -1; bool faults_suspended = false;
	int inflight_class = -1;           // class of the request in flight (-1: none / large)
	bool inflight_small = false;
	uintptr_t inflight_free = 0;       // block being freed by the call in flight
	std::vector<size_t> mapped_in_call, unmapped_in_call;
	bool failed_in_call = false;
	std::string error, error_prop;
	std::vector<std::pair<uintptr_t, size_t>> *live = nullptr;   // extents of live blocks (reported)
	// software poison shadow (one byte per 8-byte granule: number of accessible leading bytes). Used under
	// the C04 focus instead of ASan's shadow, so that a poison-state violation is an attributed oracle
	// failure and never an unattributable sanitizer abort.
	bool soft = false;
	std::vector<uint8_t> shadow;
	void soft_set(uintptr_t a, size_t n, bool accessible) {
		size_t g0 = (a - (uintptr_t)arena_base()) >> 3, off = a & 7;
		if(shadow.size() < g0 + (n + off + 7) / 8 + 1) shadow.resize(g0 + (n + off + 7) / 8 + 1, 0);
		size_t end = off + n;
		for(size_t g = 0; g * 8 < end; g++) {
			size_t lo = g * 8, hi = lo + 8;
			if(accessible) { if(off <= lo) shadow[g0 + g] = (uint8_t)std::max<size_t>(shadow[g0 + g], std::min(hi, end) - lo); }
			else { if(off <= lo) { if(end >= hi) shadow[g0 + g] = 0; else if(shadow[g0 + g] <= end - lo) shadow[g0 + g] = 0; } else shadow[g0 + g] = (uint8_t)std::min<size_t>(shadow[g0 + g], off - lo); }
		}
	}
	bool soft_accessible(uintptr_t a, size_t n) {
		size_t g0 = (a - (uintptr_t)arena_base()) >> 3, off = a & 7, end = off + n;
		for(size_t g = 0; g * 8 < end; g++) { size_t lo = g * 8; size_t need = std::min(end, lo + 8) - lo; if(g0 + g >= shadow.size() || shadow[g0 + g] < need) return false; }
		return true;
	}
	void err(const char *prop, const char *fmt, ...) __attribute__((format(printf, 3, 4))) {
		if(!error.empty()) return;
		char buf[400]; va_list ap; va_start(ap, fmt); vsnprintf(buf, sizeof buf, fmt, ap); va_end(ap);
		error = buf; error_prop = prop;
	}
	Region *find(uintptr_t a) { for(auto &r : regions) if(r.mapped && a >= r.base && a < r.base + r.len) return &r; return nullptr; }
};
Env *E = nullptr;
size_t g_touched = 0;                // high-water mark of the arena since the last reset

struct PolCore {
	uintptr_t map_impl(size_t len, size_t align) {
		E->callbacks++;
		unsigned ordinal = E->map_calls++;
		if(mutex_log().held) E->err("C05", "Policy::map called while the calling thread holds %d pool lock(s)", mutex_log().held);
		bool fail = !E->faults_suspended && (((E->fail_mask >> (ordinal % 64)) & 1) || (int)ordinal == E->fail_a || (int)ordinal == E->fail_b);
		if(fail) { E->failed_maps++; E->failed_in_call = true; return 0; }
		if(len == 0 || (len & (E->page - 1))) E->err("C03", "Policy::map asked for %zu bytes, not a positive multiple of the page size", len);
		uintptr_t a = (uintptr_t)arena_base() + E->bump;
		a = (a + E->page - 1) & ~(uintptr_t)(E->page - 1);
		if(align) a = (a + align - 1) & ~(uintptr_t)(align - 1);
		else {
			// unaligned map: bases are page- but (mostly) not superblock-aligned; the offset rotates
			size_t want = ((E->rot++ % 4) * 3 * E->page) % E->sb;
			uintptr_t s = (a + E->sb - 1) & ~(uintptr_t)(E->sb - 1);
			a = s + want;
		}
		if(a + len > (uintptr_t)arena_base() + ARENA) { E->failed_in_call = true; E->err("*", "harness arena exhausted"); return 0; }
		E->bump = a + len - (uintptr_t)arena_base();
		E->high = std::max(E->high, E->bump);
		g_touched = std::max(g_touched, E->high);
		uintptr_t hdr = align ? a : ((a + E->sb - 1) & ~(uintptr_t)(E->sb - 1));
		ASAN_UNPOISON_MEMORY_REGION((void *)a, len);
		// the pool must not rely on zeroed memory
		memset((void *)hdr, 0xCD, std::min<size_t>(len - (hdr - a), 2 * E->page));
		if(E->poison && !E->soft) ASAN_POISON_MEMORY_REGION((void *)a, len);
		if(E->soft) E->soft_set(a, len, false);
		E->regions.push_back(Region{a, len, true, 0, E->inflight_small, E->inflight_class, hdr, E->map_calls});
		E->mapped_in_call.push_back(E->regions.size() - 1);
		return a;
	}
	void unmap_impl(uintptr_t base, size_t len) {
		E->callbacks++; E->unmap_calls++;
		if(mutex_log().held) E->err("C05", "Policy::unmap called while the calling thread holds %d pool lock(s)", mutex_log().held);
		for(size_t i = 0; i < E->regions.size(); i++) {
			auto &r = E->regions[i];
			if(r.base != base) continue;
			if(!r.mapped) { E->err("C03", "unmap(%#lx, %zu) of a region that was already unmapped", (unsigned long)base, len); return; }
			if(r.len != len) { E->err("C03", "unmap(%#lx, %zu): the region was mapped with length %zu", (unsigned long)base, len, r.len); return; }
			if(E->live) for(auto &b : *E->live) if(b.first != E->inflight_free && b.first + b.second > base && b.first < base + len)
				E->err("C03", "unmap(%#lx, %zu) while the live block at %#lx lies inside", (unsigned long)base, len, (unsigned long)b.first);
			r.mapped = false;
			E->unmapped_in_call.push_back(i);
			ASAN_POISON_MEMORY_REGION((void *)base, len);
			return;
		}
		E->err("C03", "unmap(%#lx, %zu) of memory the pool never mapped", (unsigned long)base, len);
	}
	void shadow(const char *what, void *p, size_t n) {
		E->callbacks++;
		uintptr_t a = (uintptr_t)p;
		Region *r = E->find(a);
		if(n && (!r || a + n > r->base + r->len)) E->err("C03", "%s(%p, %zu) outside any region the pool has mapped", what, p, n);
	}
};

#define SIZES(P, S, B, N) static constexpr size_t pagesize = P, slabsize = S, sb_size = B; static constexpr int num_buckets = N;
// the same constants declared with a 32-bit unsigned type (what a policy written with uint32_t / unsigned literals looks like): no mask or
// rounding computed from them may lose the upper half of an address or of a length
#define SIZES32(P, S, B, N) static constexpr unsigned int pagesize = P, slabsize = S, sb_size = B; static constexpr unsigned int num_buckets = N;
#define UNALIGNED uintptr_t map(size_t len) { return map_impl(len, 0); } void unmap(uintptr_t b, size_t l) { unmap_impl(b, l); }
#define ALIGNED uintptr_t map(size_t len, size_t align) { return map_impl(len, align); } void unmap(uintptr_t b, size_t l) { unmap_impl(b, l); }
struct P0 : PolCore { UNALIGNED };                                              // every default: page 4K, slab = sb = 256K, 13 buckets
struct P1 : PolCore { ALIGNED };
struct P2 : PolCore { SIZES32(0x1000, 0x4000, 0x4000, 9) ALIGNED };              // small; constants of type unsigned int
struct P3 : PolCore { SIZES32(0x1000, 0x8000, 0x8000, 11) UNALIGNED };           // tight: 3 objects of the largest class; constants of type unsigned int
struct P4 : PolCore { SIZES(0x1000, 0x3000, 0x10000, 10) ALIGNED };              // sb > slab, slab not a power of two
struct P5 : PolCore { SIZES(0x10000, 0x40000, 0x40000, 13) UNALIGNED };          // 64K pages
struct P6 : PolCore { SIZES(0x1000, 0x7000, 0x8000, 11) ALIGNED };               // slab not a multiple of the largest class (two whole 8K objects fit behind the header)
struct P7 : PolCore { SIZES(0x1000, 0x3000, 0x10000, 10) UNALIGNED };
struct P8 : PolCore { SIZES(0x10000, 0x10000, 0x10000, 9) ALIGNED };             // page == slab == superblock: a large block's pointer is superblock-aligned
struct P9 : PolCore { SIZES(0x10000, 0x10000, 0x10000, 9) UNALIGNED };
template<typename P> struct Poisoning : P {
	void poison(void *p, size_t n) { this->shadow("poison", p, n); ASAN_POISON_MEMORY_REGION(p, n); }
	void unpoison(void *p, size_t n) { this->shadow("unpoison", p, n); ASAN_UNPOISON_MEMORY_REGION(p, n); }
	void unpoison_expand(void *p, size_t n) { this->shadow("unpoison_expand", p, n); ASAN_UNPOISON_MEMORY_REGION(p, n); }
};
struct Info { const char *name; size_t page, slab, sb; int nb; bool aligned; };
template<typename P> struct InfoOf;
template<> struct InfoOf<P0> { static constexpr Info v{"defaults/unaligned", 0x1000, 1 << 18, 1 << 18, 13, false}; };
template<> struct InfoOf<P1> { static constexpr Info v{"defaults/aligned", 0x1000, 1 << 18, 1 << 18, 13, true}; };
template<> struct InfoOf<P2> { static constexpr Info v{"slab16K/aligned/9", 0x1000, 0x4000, 0x4000, 9, true}; };
template<> struct InfoOf<P3> { static constexpr Info v{"slab32K/unaligned/11", 0x1000, 0x8000, 0x8000, 11, false}; };
template<> struct InfoOf<P4> { static constexpr Info v{"slab12K-sb64K/aligned/10", 0x1000, 0x3000, 0x10000, 10, true}; };
template<> struct InfoOf<P5> { static constexpr Info v{"page64K/unaligned/13", 0x10000, 0x40000, 0x40000, 13, false}; };
template<> struct InfoOf<P6> { static constexpr Info v{"slab28K-sb32K/aligned/11", 0x1000, 0x7000, 0x8000, 11, true}; };
template<> struct InfoOf<P7> { static constexpr Info v{"slab12K-sb64K/unaligned/10", 0x1000, 0x3000, 0x10000, 10, false}; };
template<typename P> struct SoftPoisoning : P {      // same hooks, software shadow only
	void poison(void *p, size_t n) { this->shadow("poison", p, n); E->soft_set((uintptr_t)p, n, false); }
	void unpoison(void *p, size_t n) { this->shadow("unpoison", p, n); E->soft_set((uintptr_t)p, n, true); }
	void unpoison_expand(void *p, size_t n) { this->shadow("unpoison_expand", p, n); E->soft_set((uintptr_t)p, n, true); }
};
template<> struct InfoOf<P8> { static constexpr Info v{"page64K-slab64K-sb64K/aligned/9", 0x10000, 0x10000, 0x10000, 9, true}; };
template<> struct InfoOf<P9> { static constexpr Info v{"page64K-slab64K-sb64K/unaligned/9", 0x10000, 0x10000, 0x10000, 9, false}; };
template<typename P> struct InfoOf<Poisoning<P>> : InfoOf<P> {};
template<typename P> struct InfoOf<SoftPoisoning<P>> : InfoOf<P> {};
template<typename P> struct IsPoison { static constexpr bool v = false, soft = false; };
template<typename P> struct IsPoison<Poisoning<P>> { static constexpr bool v = true, soft = false; };
template<typename P> struct IsPoison<SoftPoisoning<P>> { static constexpr bool v = true, soft = true; };

size_t class_size(int k) { return k < 4 ? (size_t(8) << k) : (size_t(64) << (k - 3)); }
int class_of(size_t n, int nb) { if(!n) n = 1; for(int k = 0; k < nb; k++) if(n <= class_size(k)) return k; return -1; }
size_t pow2ceil(size_t n) { size_t p = 1; while(p < n) p <<= 1; return p; }

struct Block { uintptr_t p; size_t req, rep; uint32_t seed; int klass; size_t filled = 0; };
unsigned char pat(uint32_t seed, size_t off) { return (unsigned char)((seed * 2654435761u + off * 40503u) >> 7); }

unsigned g_last_map_calls = 0;       // feedback for the fault enumerator
unsigned g_last_sites = 0;           // bit 0 small first slab, 1 additional slab, 2 large, 3 realloc fallback

template<typename Pol>
struct Runner {
	using Pool = frg::slab_pool<Pol, inst_mutex>;
	static constexpr Info info = InfoOf<Pol>::v;
	static constexpr bool poison = IsPoison<Pol>::v;
	static constexpr bool soft = IsPoison<Pol>::soft;
	bool accessible(uintptr_t a, size_t n) { return soft ? env.soft_accessible(a, n) : __asan_region_is_poisoned((void *)a, n) == nullptr; }
	Ctx &c;
	Env env;
	Pol pol;
	Pool *pool = nullptr;
	// half of the histories go through the slab_allocator front end (the class containers are given as their Allocator)
	bool via_wrapper = false;
	void *api_allocate(size_t n) { if(via_wrapper) { frg::slab_allocator w(pool); return w.allocate(n); } return pool->allocate(n); }
	void *api_realloc(void *q, size_t n) { if(via_wrapper) { frg::slab_allocator w(pool); return w.reallocate(q, n); } return pool->realloc(q, n); }
	void api_free(void *q) { if(via_wrapper) { frg::slab_allocator w(pool); w.free(q); } else pool->free(q); }
	void api_deallocate(void *q, size_t n) { if(via_wrapper) { frg::slab_allocator w(pool); w.deallocate(q, n); } else pool->deallocate(q, n); }
	size_t api_get_size(void *q) { if(via_wrapper) { frg::slab_allocator w(pool); return w.get_size(q); } return pool->get_size(q); }
	std::vector<Block> live;
	std::vector<std::pair<uintptr_t, size_t>> live_ext;
	long used_model = 0;
	size_t max_class;
	std::vector<unsigned> peak_live, cur_live, slabs_mapped;
	// "One size class" is what the pool itself treats as one: the small blocks that report the same size. (class_size()/class_of() below
	// only steer the generator towards today's class boundaries and predict small vs. large; a pool that serves 8-byte requests from its
	// 16-byte class, or has other classes, is judged by its own classes.)
	std::vector<size_t> reps;
	int cls_of_rep(size_t rep) {
		for(size_t i = 0; i < reps.size(); i++) if(reps[i] == rep) return (int)i;
		reps.push_back(rep); peak_live.push_back(0); cur_live.push_back(0); slabs_mapped.push_back(0); class_freed.push_back(false);
		return (int)reps.size() - 1;
	}
	unsigned step = 0;
	uint32_t next_seed = 1;
	// non-triviality bookkeeping
	bool reused_class = false, large_seen = false, moving = false, inplace = false, churn_refill = false, large_free_with_live = false, realloc_left_class = false;
	unsigned classes_used = 0;
	bool fail_small = false, fail_large = false, fail_realloc = false;
	std::vector<bool> class_freed;

	Runner(Ctx &c_) : c(c_) {}

	// what the owner may write: the reported size, and in any case the bytes it asked for
	size_t usable(const Block &b) const { return poison ? std::max<size_t>(b.req, 1) : std::max(b.rep, b.req); }
	// Fill pattern: every byte of blocks up to 8 KiB; for larger blocks the first and last 512
	// bytes and every 997th byte in between. `filled` remembers the extent the pattern was laid over.
	template<typename F> static bool positions(size_t filled, size_t upto, F f) {
		if(filled <= 8192) { for(size_t i = 0; i < filled && i < upto; i++) if(!f(i)) return false; return true; }
		for(size_t i = 0; i < 512 && i < upto; i++) if(!f(i)) return false;
		for(size_t i = 512; i < filled - 512 && i < upto; i += 997) if(!f(i)) return false;
		for(size_t i = filled - 512; i < filled && i < upto; i++) if(!f(i)) return false;
		return true;
	}
	void fill(Block &b) { auto *p = (unsigned char *)b.p; b.filled = usable(b); positions(b.filled, b.filled, [&](size_t i) { p[i] = pat(b.seed, i); return true; }); }
	bool verify_n(const Block &b, size_t n, size_t *bad) {
		auto *p = (unsigned char *)b.p;
		return positions(b.filled, n, [&](size_t i) { if(p[i] != pat(b.seed, i)) { *bad = i; return false; } return true; });
	}
	void verify(const Block &b, const char *when) {
		size_t bad;
		if(!verify_n(b, b.filled, &bad)) c.fail("C02", "%s: byte %zu of the live block at %#lx (requested %zu) changed although its owner did not write it", when, bad, (unsigned long)b.p, b.req);
	}
	// After every call: the first and last 16 bytes of every live block (where an allocator link or
	// a neighbour's overrun lands) - every step while few blocks are live, every 8th step otherwise; every
	// block is verified completely when it is touched, freed or reallocated, every 64 steps and at the end, so no corruption escapes - it is only seen later.
	void verify_all(const char *when) {
		bool full = (step & 63) == 0;
		if(!full && (step & 7) != 0 && live.size() > 8) return;
		for(auto &b : live) {
			if(full) { verify(b, when); continue; }
			auto *p = (unsigned char *)b.p; size_t n = b.filled;
			for(size_t i = 0; i < 16 && i < n; i++) if(p[i] != pat(b.seed, i) || p[n - 1 - i] != pat(b.seed, n - 1 - i))
				c.fail("C02", "%s: byte %zu (or its mirror) of the live block at %#lx (requested %zu) changed although its owner did not write it", when, i, (unsigned long)b.p, b.req);
		}
	}
	void sync_ext() { live_ext.clear(); for(auto &b : live) live_ext.push_back({b.p, b.rep}); }

	void poll(const char *when) {
		if(!env.error.empty()) { std::string e = env.error, p = env.error_prop; env.error.clear(); c.fail(p.c_str(), "%s: %s", when, e.c_str()); }
		VMUTEX_POLL(c, "C05");
		c.check_san(c.focus().empty() ? "C01" : c.focus().c_str());
	}

	void begin_call(int klass, bool small, uintptr_t freeing) {
		env.inflight_class = klass; env.inflight_small = small; env.inflight_free = freeing;
		env.mapped_in_call.clear(); env.unmapped_in_call.clear(); env.failed_in_call = false;
		step++;
	}
	// bookkeeping common to every pool call: page accounting, locks, mapped-set consistency
	void end_call(const char *what) {
		poll(what);
		VCHECK(c, "C04", mutex_log().held == 0, "%s: %d pool lock(s) still held when the call returned", what, mutex_log().held);
		long now = (long)pool->numUsedPages();
		long delta = now - used_model;
		// "The counter rises when a region is taken and falls by the same amount when it is returned": the amount a region was charged
		// with is whatever the counter rose by in the call that took it (it need not be a function of the region's length), and exactly
		// that must come off when the region goes. A region that is mapped and unmapped within one call (a probe) nets zero.
		long known = 0; std::vector<size_t> kept; bool fuzzy = false;
		for(size_t i : env.unmapped_in_call) { if(env.regions[i].inc < 0) fuzzy = true; else known -= env.regions[i].inc; }
		for(size_t i : env.mapped_in_call) if(env.regions[i].mapped) kept.push_back(i);
		if(fuzzy) { for(size_t i : kept) env.regions[i].inc = -1; c.tag("page-accounting-ambiguous-call"); }
		else if(kept.size() == 1) {
			long inc = delta - known;
			VCHECK(c, "C03", inc > 0, "%s: numUsedPages() did not rise when a region of %zu bytes was taken (delta %ld)", what, env.regions[kept[0]].len, inc);
			VCHECK(c, "C03", (size_t)inc <= env.regions[kept[0]].len / info.page + 1, "%s: numUsedPages() rose by %ld for a region of %zu bytes", what, inc, env.regions[kept[0]].len);
			env.regions[kept[0]].inc = inc;
		} else if(kept.empty()) VCHECK(c, "C03", delta == known, "%s: numUsedPages() changed by %ld, the regions returned in this call account for %ld (counter drifts)", what, delta, known);
		else {
			// several regions kept by one call: only their sum is observable; they are tracked as charged with an unknown amount
			long inc = delta - known;
			VCHECK(c, "C03", inc > 0, "%s: numUsedPages() did not rise although %zu regions were taken (delta %ld)", what, kept.size(), inc);
			for(size_t i : kept) env.regions[i].inc = -1;
			c.tag("page-accounting-ambiguous-call");
		}
		VCHECK(c, "C03", now >= 0 && (unsigned long)now < (1ul << 40), "%s: numUsedPages() is %ld (underflow)", what, now);
		used_model = now;
		// regions taken by a failed or abandoned call must not stay mapped unused: every mapped
		// region is a slab region or holds a live large block
		for(auto &r : env.regions) if(r.mapped && r.large_res) {
			bool holds = false;
			for(auto &b : live) if(b.p >= r.base && b.p < r.base + r.len) holds = true;
			VCHECK(c, "C03", holds, "%s: the %zu-byte region at %#lx is still mapped although no live large block lies in it", what, r.len, (unsigned long)r.base);
		}
		env.inflight_class = -1; env.inflight_small = false; env.inflight_free = 0;
	}

	void birth_checks(Block &b, const char *what) {
		size_t n1 = std::max<size_t>(b.req, 1);
		Region *r = env.find(b.p);
		VCHECK(c, "C01", r != nullptr, "%s: returned %#lx which lies in no region currently mapped by the policy", what, (unsigned long)b.p);
		VCHECK_OWN(c, "C01", b.rep >= b.req && b.rep >= 1, "%s: get_size() reports %zu for a request of %zu bytes", what, b.rep, b.req);
		VCHECK(c, "C01", b.p + n1 <= r->base + r->len, "%s: the %zu requested bytes at %#lx extend past the mapped region [%#lx, +%zu)", what, n1, (unsigned long)b.p, (unsigned long)r->base, r->len);
		VCHECK(c, "C01", b.p + b.rep <= r->base + r->len, "%s: the block at %#lx with reported size %zu extends past the mapped region [%#lx, +%zu)", what, (unsigned long)b.p, b.rep, (unsigned long)r->base, r->len);
		size_t al = std::min(info.page, std::max<size_t>(8, pow2ceil(n1)));
		VCHECK(c, "C01", (b.p & (al - 1)) == 0, "%s: %#lx is not aligned to %zu for a request of %zu bytes", what, (unsigned long)b.p, al, b.req);
		// (Where the allocator keeps its bookkeeping is not visible from outside: a block that lies on it is found out by what follows - the
		// fill pattern laid over the whole reported size ruins the bookkeeping, and the pool's next operations fail their own checks,
		// hand out overlapping blocks or crash under the sanitizers.)
		for(auto &o : live) {
			if(&o == &b) continue;
			VCHECK(c, "C01", b.p + b.rep <= o.p || o.p + o.rep <= b.p, "%s: the new block [%#lx, +%zu) overlaps the live block [%#lx, +%zu)", what, (unsigned long)b.p, b.rep, (unsigned long)o.p, o.rep);
		}
		if(poison) VCHECK(c, "C03", accessible(b.p, n1), "%s: the %zu requested bytes at %#lx are not all unpoisoned", what, n1, (unsigned long)b.p);
	}
	void touch(const Block &b, const char *what) {
		size_t s = api_get_size((void *)b.p);
		VCHECK(c, "C01", s == b.rep, "%s: get_size(%#lx) changed from %zu to %zu while the block lives", what, (unsigned long)b.p, b.rep, s);
		if(poison) VCHECK(c, "C03", accessible(b.p, std::max<size_t>(b.req, 1)), "%s: requested bytes of the live block at %#lx became poisoned", what, (unsigned long)b.p);
	}
	void note_alloc(const Block &b) {
		if(b.klass >= 0) {
			if(class_freed[b.klass]) reused_class = true;
			cur_live[b.klass]++;
			if(cur_live[b.klass] > peak_live[b.klass]) peak_live[b.klass] = cur_live[b.klass];
			classes_used |= 1u << b.klass;
		} else large_seen = true;
	}
	void footprint(const char *what, int cls) {
		// slabs ever mapped for a class never exceed ceil(peak live / objects per slab); a slab mapped in this call belongs to the class of the block the call returned
		for(auto &r : env.regions) if(r.slab && r.born_call) { if(cls >= 0 && r.mapped) slabs_mapped[cls]++; r.born_call = 0; }     // (a region that was mapped and given back within the call - a probe - is not a slab)
		for(size_t k = 0; k < reps.size(); k++) if(slabs_mapped[k]) {
			unsigned ops = objects_per_slab(reps[k]);
			if(!ops) { c.tag("class-not-calibratable"); continue; }
			size_t fit = info.slab / reps[k];
			// the calibration is the pool's own answer (how long a slab of a class is and how much of it holds objects is the pool's business);
			// it is only required to be possible at all
			VCHECK(c, "C02", ops >= 1 && ops <= fit, "%u objects of %zu bytes per %zu-byte slab is outside the plausible range", ops, reps[k], info.slab);
			unsigned bound = (peak_live[k] + ops - 1) / ops;
			VCHECK(c, "C02", slabs_mapped[k] <= bound, "%s: %u slabs are mapped for the %zu-byte class although at most %u blocks of it were ever live at once (%u fit into a slab): freed memory is not reused before new memory is mapped",
					what, slabs_mapped[k], reps[k], peak_live[k], ops);
		}
	}
	// calibrated once per process and configuration on a scratch pool, cross-checked against a loose bound
	// rep: the reported size of the class. Returns 0 when a request of rep bytes is not served from that class (then no bound is claimed).
	static unsigned objects_per_slab(size_t rep) {
		static std::map<size_t, unsigned> cache;
		auto it = cache.find(rep); if(it != cache.end()) return it->second;
		Env *saved = E; Env scratch; scratch.page = info.page; scratch.slab = info.slab; scratch.sb = info.sb; scratch.aligned = info.aligned; scratch.poison = poison; scratch.soft = soft;
		scratch.bump = saved->high + (16u << 20); scratch.high = scratch.bump;
		E = &scratch;
		int held = mutex_log().held;
		unsigned result = 0;
		{
			Pol p; Pool *pl = new Pool(p);
			unsigned n = 0; bool same_class = true;
			while(scratch.map_calls < 2 && n < 100000) { void *q = pl->allocate(rep); if(n == 0 && (!q || pl->get_size(q) != rep)) { same_class = false; break; } n++; }
			if(same_class && n > 1) result = n - 1;
			ASAN_UNPOISON_MEMORY_REGION(arena_base() + saved->high, scratch.high - saved->high);
			madvise(arena_base() + saved->high, scratch.high - saved->high, MADV_DONTNEED);
			raw_delete(pl);
		}
		mutex_log().held = held; mutex_log().error.clear();
		E = saved;
		cache[rep] = result;
		return result;
	}
	// the class that serves requests of n bytes (n small), asked of a scratch pool: index into reps
	int cls_for_request(size_t n) {
		static std::map<size_t, size_t> cache;
		auto it = cache.find(n);
		if(it == cache.end()) {
			Env *saved = E; Env scratch; scratch.page = info.page; scratch.slab = info.slab; scratch.sb = info.sb; scratch.aligned = info.aligned; scratch.poison = poison; scratch.soft = soft;
			scratch.bump = saved->high + (16u << 20); scratch.high = scratch.bump;
			E = &scratch;
			int held = mutex_log().held;
			size_t rep = 0;
			{ Pol p; Pool *pl = new Pool(p); void *q = pl->allocate(n); rep = q ? pl->get_size(q) : 0;
			  ASAN_UNPOISON_MEMORY_REGION(arena_base() + saved->high, scratch.high - saved->high);
			  madvise(arena_base() + saved->high, scratch.high - saved->high, MADV_DONTNEED);
			  raw_delete(pl); }
			mutex_log().held = held; mutex_log().error.clear();
			E = saved;
			it = cache.emplace(n, rep).first;
		}
		return cls_of_rep(it->second);
	}

	// The largest request that is served from a slab, asked of scratch pools: a request is "large" when freeing its block right away
	// gives a region back to the policy (C03: freeing a large block returns its whole reservation). class_size(nb - 1) is today's value.
	static size_t small_max() {
		static size_t cached = 0;
		if(cached) return cached;
		auto is_small = [&](size_t n) {
			Env *saved = E; Env scratch; scratch.page = info.page; scratch.slab = info.slab; scratch.sb = info.sb; scratch.aligned = info.aligned; scratch.poison = poison; scratch.soft = soft;
			scratch.bump = saved->high + (16u << 20); scratch.high = scratch.bump;
			E = &scratch;
			int held = mutex_log().held;
			bool small = true;
			{ Pol p; Pool *pl = new Pool(p); void *q = pl->allocate(n); unsigned before = scratch.unmap_calls; if(q) pl->free(q); small = q && scratch.unmap_calls == before;
			  ASAN_UNPOISON_MEMORY_REGION(arena_base() + saved->high, scratch.high - saved->high);
			  madvise(arena_base() + saved->high, scratch.high - saved->high, MADV_DONTNEED);
			  raw_delete(pl); }
			mutex_log().held = held; mutex_log().error.clear();
			E = saved;
			return small;
		};
		size_t lo = 1, hi = info.slab;        // is_small(lo) holds, is_small(hi) does not (a slab cannot hold an object of its own size plus a header)
		if(!is_small(lo)) { cached = 1; return 1; }
		while(lo + 1 < hi) { size_t mid = lo + (hi - lo) / 2; if(is_small(mid)) lo = mid; else hi = mid; }
		cached = lo;
		return cached;
	}
	int predict(size_t n) { return (n ? n : 1) <= small_max() ? class_of(std::min<size_t>(n ? n : 1, class_size(info.nb - 1)), info.nb) : -1; }

	Block *do_alloc(size_t n, const char *what, bool via_realloc_null = false) {
		int k = predict(n);
		begin_call(k, k >= 0, 0);
		unsigned maps_before = env.map_calls;
		void *p = via_realloc_null ? api_realloc(nullptr, n) : api_allocate(n);
		unsigned maps = env.map_calls - maps_before;
		if(env.failed_in_call) {
			VCHECK(c, "C04", p == nullptr, "%s: Policy::map returned 0 during the call but it returned %p", what, p);
			if(k >= 0) fail_small = true; else fail_large = true;
			after_failure(what);
			end_call(what);
			// the same request succeeds as soon as mapping succeeds again
			env.faults_suspended = true;
			begin_call(k, k >= 0, 0);
			p = api_allocate(n);
			env.faults_suspended = false;
			VCHECK(c, "C04", p != nullptr, "%s: the request still fails after mapping works again", what);
			c.tag("fault-hit");
		}
		VCHECK(c, "C01", p != nullptr, "%s returned null although mapping did not fail", what);
		live.push_back(Block{(uintptr_t)p, n, 0, next_seed++, k});
		Block &b = live.back();
		b.rep = api_get_size(p);
		if(k >= 0) b.klass = cls_of_rep(b.rep);
		else if(Region *rr = env.find(b.p)) rr->large_res = true;
		sync_ext();
		birth_checks(b, what);
		fill(b);
		note_alloc(b);
		end_call(what);
		if(k >= 0 && maps) g_last_sites |= (slabs_mapped[b.klass] ? 2 : 1);
		if(k < 0 && maps) g_last_sites |= 4;
		footprint(what, b.klass);
		verify_all(what);
		return &live.back();
	}
	// after a call in which map() failed: nothing existing was touched
	std::vector<Block> snapshot; long snap_used = 0; size_t snap_mapped = 0;
	void take_snapshot() { snapshot = live; snap_used = (long)pool->numUsedPages(); snap_mapped = 0; for(auto &r : env.regions) if(r.mapped) snap_mapped++; }
	void after_failure(const char *what) {
		VCHECK(c, "C04", live.size() == snapshot.size(), "model");
		if(poison) for(auto &b : live) VCHECK_OWN(c, "C03", accessible(b.p, std::max<size_t>(b.req, 1)), "%s: the requested bytes of the live block at %#lx (%zu bytes) are poisoned after a call in which map() failed", what, (unsigned long)b.p, b.req);
		if(poison) for(auto &b : live) VCHECK(c, "C04", accessible(b.p, std::max<size_t>(b.req, 1)), "%s: map() failed and the requested bytes of the existing block at %#lx (%zu bytes) are no longer accessible (poisoned)", what, (unsigned long)b.p, b.req);
		for(auto &b : live) { touch(b, what); size_t bad; if(!verify_n(b, b.filled, &bad)) c.fail("C04", "%s: map() failed and byte %zu of the existing block at %#lx changed", what, bad, (unsigned long)b.p); }
		VCHECK_OWN(c, "C03", (long)pool->numUsedPages() == snap_used, "%s: numUsedPages() drifted from %ld to %zu in a call in which map() failed and no region was taken or returned", what, snap_used, pool->numUsedPages());
		VCHECK(c, "C04", (long)pool->numUsedPages() == snap_used, "%s: map() failed and numUsedPages() changed from %ld to %zu", what, snap_used, pool->numUsedPages());
		size_t m = 0; for(auto &r : env.regions) if(r.mapped) m++;
		VCHECK(c, "C04", m == snap_mapped, "%s: map() failed and the number of mapped regions changed from %zu to %zu (leak)", what, snap_mapped, m);
		VCHECK(c, "C04", mutex_log().held == 0, "%s: map() failed and %d pool lock(s) are left locked", what, mutex_log().held);
	}

	void release_checks(const Block &b, const char *what) {
		if(b.klass >= 0) {
			cur_live[b.klass]--; class_freed[b.klass] = true;
			if(poison) {
				// "poisoned again except for the allocator's own link word": at most one aligned word of the freed block stays accessible (where
				// in the block the allocator keeps it is its business)
				size_t open_words = 0, first_open = 0;
				for(size_t off = 0; off < b.rep; off += 8) {
					bool poisoned = soft ? !env.soft_accessible(b.p + off, 1) : __asan_address_is_poisoned((void *)(b.p + off)) != 0;
					if(!poisoned) { if(!open_words) first_open = off; open_words++; }
				}
				VCHECK(c, "C03", open_words <= 1, "%s: %zu words of the freed %zu-byte block at %#lx are not poisoned (the first at byte %zu); only the allocator's link word may stay accessible", what, open_words, b.rep, (unsigned long)b.p, first_open);
			}
		} else {
			Region *r = env.find(b.p);
			VCHECK(c, "C03", r == nullptr, "%s: the reservation of the freed large block at %#lx is still mapped", what, (unsigned long)b.p);
			if(live.size() > 0) large_free_with_live = true;
		}
	}
	void do_free(size_t idx, unsigned how, const char *what) {
		Block b = live[idx];
		verify(b, what); touch(b, what);
		begin_call(-1, false, b.p);
		live.erase(live.begin() + idx); sync_ext();
		if(how == 0) api_free((void *)b.p);
		else api_deallocate((void *)b.p, how == 1 ? std::max<size_t>(b.req, 0) : b.rep);
		release_checks(b, what);
		end_call(what);
		verify_all(what);
	}
	size_t do_realloc(size_t idx, size_t n, const char *what) {
		Block old = live[idx];
		verify(old, what); touch(old, what);
		if(n == 0) {
			begin_call(-1, false, old.p);
			live.erase(live.begin() + idx); sync_ext();
			void *q = api_realloc((void *)old.p, 0);
			VCHECK(c, "C02", q == nullptr, "realloc(p, 0) returned %p", q);
			release_checks(old, what);
			end_call(what);
			verify_all(what);
			return (size_t)-1;
		}
		int k = predict(n);
		take_snapshot();
		begin_call(k, k >= 0, old.p);
		unsigned maps_before = env.map_calls;
		void *q = api_realloc((void *)old.p, n);
		if(env.map_calls != maps_before) g_last_sites |= 8;
		if(env.failed_in_call) {
			VCHECK(c, "C04", q == nullptr, "%s: Policy::map returned 0 during the call but it returned %p", what, q);
			fail_realloc = true;
			env.inflight_free = 0;
			after_failure(what);
			end_call(what);
			c.tag("fault-hit"); c.tag("fault-in-realloc");
			env.faults_suspended = true;
			begin_call(k, k >= 0, old.p);
			q = api_realloc((void *)old.p, n);
			env.faults_suspended = false;
			VCHECK(c, "C04", q != nullptr, "%s: the request still fails after mapping works again", what);
		}
		VCHECK(c, "C02", q != nullptr, "%s returned null although mapping did not fail", what);
		Block nb{(uintptr_t)q, n, 0, old.seed, k, old.filled};
		if((uintptr_t)q == old.p) {
			inplace = true;
			nb.rep = api_get_size(q);
			VCHECK_OWN(c, "C01", nb.rep == old.rep, "%s: in-place realloc changed the reported size from %zu to %zu", what, old.rep, nb.rep);
			VCHECK_OWN(c, "C01", nb.rep >= n, "%s: in-place realloc to %zu bytes of a block of reported size %zu", what, n, nb.rep);
			nb.klass = old.klass;
			live[idx] = nb;
			sync_ext();
			if(poison) VCHECK(c, "C03", accessible((uintptr_t)q, n), "%s: requested bytes not unpoisoned after in-place realloc", what);
		} else {
			moving = true;
			live.erase(live.begin() + idx);
			live.push_back(nb);
			Block &b = live.back();
			b.rep = api_get_size(q);
			if(k >= 0) b.klass = cls_of_rep(b.rep);
			else if(Region *rr = env.find(b.p)) rr->large_res = true;
			if(old.klass >= 0 && b.klass != old.klass) realloc_left_class = true;
			sync_ext();
			birth_checks(b, what);
			release_checks(old, what);
			note_alloc(b);
		}
		Block &cur = (uintptr_t)q == old.p ? live[idx] : live.back();
		size_t keep = std::min(old.req, n);
		size_t bad;
		Block probe = cur; probe.seed = old.seed; probe.filled = old.filled;
		if(keep && !verify_n(probe, std::min(keep, usable(cur)), &bad)) c.fail("C02", "%s: byte %zu of the first min(old, new) = %zu bytes differs from the old contents", what, bad, keep);
		cur.seed = next_seed++;
		fill(cur);
		end_call(what);
		footprint(what, cur.klass);
		verify_all(what);
		return (uintptr_t)q == old.p ? idx : live.size() - 1;
	}

	size_t gen_size() {
		auto &t = c.t;
		size_t maxc = small_max();
		switch(t.pick(10)) {
		case 0: return t.pick(3);                                                        // 0, 1, 2
		case 1: case 2: { int k = t.pick(info.nb); size_t s = class_size(k); return s - 1 + t.pick(3); }   // class size and +-1
		case 3: return maxc - 1 + t.pick(3);                                             // small/large threshold
		case 4: { size_t pg = (1 + t.pick(6)) * info.page; return pg - 1 + t.pick(3); }  // page multiples +-1
		case 5: case 6: return t.pick(300);                                              // uniform small
		case 7: return t.pick((unsigned)(2 * maxc));                                     // around all classes
		case 8: return maxc + 1 + t.pick((unsigned)(4 * info.page));                     // smallest large blocks
		default: return t.pick(8) ? t.pick((unsigned)(2 * info.sb)) : t.pick((unsigned)(3 * info.sb + 2 * info.page));   // up to several superblocks
		}
	}

	void run() {
		auto &t = c.t;
		env.c = &c; env.page = info.page; env.slab = info.slab; env.sb = info.sb; env.aligned = info.aligned; env.poison = poison; env.soft = soft; env.live = &live_ext;
		E = &env;
		mutex_log().reset();
		max_class = small_max();
		reps.clear(); peak_live.clear(); cur_live.clear(); slabs_mapped.clear(); class_freed.clear();
		g_last_sites = 0;
		// fault plan
		unsigned fmode = t.pick(c.focus() == "C04" ? 4 : 12);
		if(fmode == 1) { env.fail_mask = t.next64() & t.next64(); c.op("faults: mask %#llx", (unsigned long long)env.fail_mask); }
		else if(fmode == 2) { env.fail_a = t.pick(30); c.op("faults: map call #%d", env.fail_a); }
		else if(fmode == 3) { env.fail_a = t.pick(30); env.fail_b = t.pick(30); c.op("faults: map calls #%d and #%d", env.fail_a, env.fail_b); }
		else { t.next(); }
		c.op("policy %s%s", info.name, soft ? "+poison(software shadow)" : poison ? "+poison" : "");
		pool = new (c.raw(sizeof(Pool), alignof(Pool))) Pool(pol);
		VCHECK(c, "C03", pool->numUsedPages() == 0 && env.callbacks == 0, "a fresh pool reports %zu used pages / made %u policy calls", pool->numUsedPages(), env.callbacks);
		take_snapshot();

		unsigned nops = 1 + t.pick(40);
		if(t.pick(6) == 0) nops += t.pick(360);
		via_wrapper = nops & 1; if(via_wrapper) c.tag("via-slab_allocator");
		char what[160];
		for(unsigned i = 0; i < nops && !t.done(); i++) {
			unsigned op = t.pick(18);
			take_snapshot();
			switch(op) {
			case 0: case 1: case 2: case 3: case 4: { size_t n = gen_size(); snprintf(what, sizeof what, "allocate(%zu)", n); c.op("%s", what); do_alloc(n, what); break; }
			case 5: case 6: case 7: if(!live.empty()) { size_t idx = t.pick(live.size()); unsigned how = op == 7 ? 1 + t.pick(2) : 0;
				snprintf(what, sizeof what, how == 0 ? "free(#%zu: %zu bytes)" : how == 1 ? "deallocate(#%zu, requested %zu)" : "deallocate(#%zu: %zu bytes, reported size)", idx, live[idx].req); c.op("%s", what); do_free(idx, how, what); } break;
			case 8: case 9: case 10: if(!live.empty()) { size_t idx = t.pick(live.size()); size_t n;
				unsigned how = t.pick(5);
				if(how == 0) n = gen_size(); else if(how == 1) n = live[idx].rep - t.pick(2);                 // grow within the class / to the reported size
				else if(how == 2) n = live[idx].rep + 1 + t.pick(16);                                      // just leave the class
				else if(how == 3) n = live[idx].req / 2 + t.pick(2);                                       // shrink
				else n = live[idx].req + t.pick(64);
				if(n == 0) n = 1;
				snprintf(what, sizeof what, "realloc(#%zu: %zu bytes, %zu)", idx, live[idx].req, n); c.op("%s", what); do_realloc(idx, n, what); } break;
			case 11: { size_t n = gen_size(); snprintf(what, sizeof what, "realloc(null, %zu)", n); c.op("%s", what); do_alloc(n, what, true); break; }
			case 12: if(!live.empty()) { size_t idx = t.pick(live.size()); snprintf(what, sizeof what, "realloc(#%zu, 0)", idx); c.op("%s", what); do_realloc(idx, 0, what); } break;
			case 13: { unsigned cb = env.callbacks; long u = (long)pool->numUsedPages(); begin_call(-1, false, 0);
				if(t.flip()) { c.op("free(null)"); api_free(nullptr); } else { size_t k = t.pick(100000); c.op("deallocate(null, %zu)", k); api_deallocate(nullptr, k); }
				VCHECK(c, "C02", env.callbacks == cb && (long)pool->numUsedPages() == u, "free/deallocate of null made %u policy calls / changed the page counter", env.callbacks - cb);
				end_call("free(null)"); verify_all("free(null)"); break; }
			case 14: if(!live.empty()) { size_t idx = t.pick(live.size()); c.op("get_size(#%zu)", idx); touch(live[idx], "get_size"); verify(live[idx], "get_size"); } break;
			case 15: case 16: {   // churn: allocate k blocks of one class, free them in a generated order, r rounds
				int k = t.flip() ? info.nb - 1 - (int)t.pick(4) : (int)t.pick(info.nb);    // biased to classes with few objects per slab
				int cls = cls_for_request(class_size(k)); unsigned ops = objects_per_slab(reps[cls]); if(!ops) ops = (unsigned)(info.slab / class_size(k));
				unsigned cnt = t.pick(3) == 0 ? ops + 1 + t.pick(3) : 1 + t.pick(std::min(ops + 2, 40u)); if(cnt > 600) cnt = 600;
				unsigned rounds = 1 + t.pick(3);
				c.op("churn class %zu x%u, %u rounds", class_size(k), cnt, rounds);
				for(unsigned r = 0; r < rounds; r++) {
					size_t first = live.size();
					unsigned before = slabs_mapped[cls];
					for(unsigned j = 0; j < cnt; j++) { snprintf(what, sizeof what, "churn allocate(%zu)", class_size(k)); take_snapshot(); do_alloc(class_size(k) - (j % 3 == 0 ? 0 : t.pick(std::min<size_t>(class_size(k) / 2, 7))), what); }
					if(r > 0 && cnt >= ops && slabs_mapped[cls] == before) churn_refill = true;
					unsigned nfree = t.pick(4) == 0 ? t.pick(cnt + 1) : cnt;
					for(unsigned j = 0; j < nfree && live.size() > first; j++) { size_t idx = first + t.pick(live.size() - first); do_free(idx, 0, "churn free"); }
				}
				break; }
			default: if(!live.empty()) {   // realloc chain
				size_t idx = t.pick(live.size()); unsigned steps = 1 + t.pick(6);
				c.op("realloc chain from #%zu (%zu bytes), %u steps", idx, live[idx].req, steps);
				size_t j = idx;
				for(unsigned s = 0; s < steps && j != (size_t)-1; s++) {
					size_t n = t.flip() ? live[j].req * 2 + t.pick(9) : live[j].req + 1 + t.pick(40);
					if(n > 3 * info.sb) n = live[j].req / 3 + 1;
					snprintf(what, sizeof what, "chain realloc(%zu -> %zu)", live[j].req, n); take_snapshot(); j = do_realloc(j, n, what);
				}
			} break;
			}
			if((i & 15) == 15) for(auto &b : live) touch(b, "sweep");
		}
		// final sweep, then release everything: only slab memory stays mapped
		for(auto &b : live) { touch(b, "final sweep"); verify(b, "final sweep"); }
		c.op("free all %zu", live.size());
		env.fail_mask = 0; env.fail_a = env.fail_b = -1;
		while(!live.empty()) do_free(live.size() - 1, 0, "final free");
		for(auto &r : env.regions) VCHECK(c, "C03", !r.mapped || !r.large_res, "after freeing every block the %zu-byte reservation of a large block at %#lx is still mapped", r.len, (unsigned long)r.base);
		long slab_pages = 0; bool all_known = true; for(auto &r : env.regions) if(r.mapped) { if(r.inc < 0) all_known = false; slab_pages += r.inc; }
		if(all_known) VCHECK(c, "C03", (long)pool->numUsedPages() == slab_pages, "after freeing every block numUsedPages() is %zu, the mapped slabs account for %ld", pool->numUsedPages(), slab_pages);
		g_last_map_calls = env.map_calls;

		int nclasses = __builtin_popcount(classes_used);
		if(reused_class) c.tag("class-reuse"); if(large_seen) c.tag("large"); if(moving) c.tag("moving-realloc"); if(inplace) c.tag("inplace-realloc");
		if(churn_refill) c.tag("churn-refill"); if(large_free_with_live) c.tag("large-free-with-live"); if(realloc_left_class) c.tag("realloc-left-class");
		if(fail_small) c.tag("fault-small"); if(fail_large) c.tag("fault-large"); if(fail_realloc) c.tag("fault-realloc");
		c.tagf("cfg-%s%s", info.name, soft ? "+softpoison" : poison ? "+poison" : "");
		const std::string &f = c.focus();
		if(f == "C02") c.nontrivial = moving && inplace && churn_refill;
		else if(f == "C03") c.nontrivial = large_free_with_live && (!poison || realloc_left_class);
		else if(f == "C04") c.nontrivial = env.failed_maps > 0 && (fail_small || fail_large || fail_realloc);
		else c.nontrivial = reused_class && nclasses >= 2 && large_seen;
		E = nullptr;
	}
};

template<typename P> void go(Ctx &c) { Runner<P> r(c); r.run(); }

template<template<typename> class W> void run_base(Ctx &c, unsigned base) {
	switch(base) {
	case 0: go<W<P0>>(c); break; case 1: go<W<P1>>(c); break; case 2: go<W<P2>>(c); break; case 3: go<W<P3>>(c); break; case 4: go<W<P4>>(c); break;
	case 5: go<W<P5>>(c); break; case 6: go<W<P6>>(c); break; case 7: go<W<P7>>(c); break; case 8: go<W<P8>>(c); break; default: go<W<P9>>(c); break;
	}
}
template<typename P> using Plain = P;
constexpr unsigned NBASE = 10;
// variant: 0 plain, 1 poisoning (ASan shadow), 2 poisoning (software shadow)
// Which variants a binary contains is a build option (VERIF_SLAB_VARIANTS, bit 0 plain, bit 1 poisoning,
// bit 2 software-shadow poisoning): 30 instantiations in one translation unit compile too slowly.
#ifndef VERIF_SLAB_VARIANTS
#define VERIF_SLAB_VARIANTS 3
#endif
void run_config(Ctx &c, unsigned base, unsigned variant) {
	if(!((VERIF_SLAB_VARIANTS >> variant) & 1)) variant = (VERIF_SLAB_VARIANTS & 1) ? 0 : (VERIF_SLAB_VARIANTS & 4) ? 2 : 1;
#if VERIF_SLAB_VARIANTS & 1
	if(variant == 0) return run_base<Plain>(c, base);
#endif
#if VERIF_SLAB_VARIANTS & 2
	if(variant == 1) return run_base<Poisoning>(c, base);
#endif
#if VERIF_SLAB_VARIANTS & 4
	if(variant == 2) return run_base<SoftPoisoning>(c, base);
#endif
}
} // namespace

void verif_case_reset() {
	E = nullptr;
	// give the address space back and forget all poisoning
	if(g_touched) {
		ASAN_UNPOISON_MEMORY_REGION(arena_base(), g_touched);
		madvise(arena_base(), g_touched, MADV_DONTNEED);
		g_touched = 0;
	}
	mutex_log().reset();
}

// ---- requests of 4 GiB and more ------------------------------------------------------------------
// A policy of its own: map() reserves address space without backing (PROT_NONE, MAP_NORESERVE) and makes only the first
// pages and the last page of the reservation accessible; the constants have a 32-bit unsigned type.
namespace {
struct HugeLog { struct M { uintptr_t base; size_t len; bool live; }; std::vector<M> maps; std::string error; unsigned map_calls = 0, unmap_calls = 0; };
HugeLog *HL = nullptr;
struct HugePol {
	static constexpr unsigned int pagesize = 0x1000, slabsize = 0x4000, sb_size = 0x4000; static constexpr unsigned int num_buckets = 9;
	uintptr_t map(size_t len) {
		HL->map_calls++;
		void *p = mmap(nullptr, len, PROT_NONE, MAP_PRIVATE | MAP_ANONYMOUS | MAP_NORESERVE, -1, 0);
		if(p == MAP_FAILED) { HL->error = "address space exhausted"; return 0; }
		size_t head = std::min<size_t>(len, 0x10000);
		mprotect(p, head, PROT_READ | PROT_WRITE);
		if(len > head) mprotect((char *)p + ((len - 1) & ~size_t(0xfff)), 0x1000, PROT_READ | PROT_WRITE);
		HL->maps.push_back({(uintptr_t)p, len, true});
		return (uintptr_t)p;
	}
	void unmap(uintptr_t base, size_t len) {
		HL->unmap_calls++;
		for(auto &m : HL->maps) if(m.live && m.base == base) { if(m.len != len && HL->error.empty()) { char b[160]; snprintf(b, sizeof b, "unmap(%#lx, %zu): map() was asked for %zu bytes at this base", (unsigned long)base, len, m.len); HL->error = b; } m.live = false; munmap((void *)base, m.len); return; }
		if(HL->error.empty()) HL->error = "unmap of memory the pool never mapped";
	}
};
}
void run_huge(Ctx &c) {
	auto &t = c.t;
	HugeLog log; HL = &log;
	HugePol pol;
	using Pool = frg::slab_pool<HugePol, inst_mutex>;
	Pool *pool = new (c.raw(sizeof(Pool), alignof(Pool))) Pool(pol);
	static const size_t sizes[] = {(size_t(1) << 32) - 100, (size_t(1) << 32) - 0x1000, size_t(1) << 32, (size_t(1) << 32) + 1, (size_t(1) << 32) + 0x5000, (size_t(1) << 33) + 77, (size_t(3) << 31) + 5, (size_t(1) << 31) + 9};
	c.op("requests of 4 GiB and more (policy constants of type unsigned int, address space reserved without backing)");
	c.tag("huge-requests");
	unsigned rounds = 1 + t.pick(3);
	for(unsigned r = 0; r < rounds; r++) {
		size_t n = sizes[t.pick(8)];
		(void)t.pick(3);      // (a moving realloc would copy 4 GiB of inaccessible pages: not part of this battery)
		c.op("allocate(%zu)", n);
		size_t maps_before = log.maps.size();
		// C01 quantifies over sizes "up to several superblocks"; what is checked here is the statement itself for whatever the pool
		// does return: a pool that refuses such a request (null, or its assertion hook) is not at fault, one that returns a pointer is held to it.
		char *p = nullptr;
		try { p = (char *)pool->allocate(n); } catch(Panic &) { c.tag("huge-request-refused"); break; }
		if(!p) { c.tag("huge-request-refused"); continue; }
		VCHECK(c, "C01", log.error.empty(), "allocate(%zu): %s", n, log.error.c_str());
		HugeLog::M *reg = nullptr; for(auto &m : log.maps) if(m.live && (uintptr_t)p >= m.base && (uintptr_t)p < m.base + m.len) reg = &m;
		VCHECK(c, "C01", reg != nullptr, "allocate(%zu) returned a pointer outside every mapping of the policy", n);
		bool fits = (uintptr_t)p + n <= reg->base + reg->len;
		VCHECK_OWN(c, "C01", fits, "allocate(%zu): the block at %#lx does not fit into the %zu bytes mapped for it at %#lx (map() was asked for too little)", n, (unsigned long)p, reg->len, (unsigned long)reg->base);
		VCHECK_OWN(c, "C01", pool->get_size(p) >= n, "get_size() reports %zu for a request of %zu bytes", pool->get_size(p), n);
		VCHECK(c, "C03", pool->numUsedPages() >= n / 0x1000, "numUsedPages() is %zu after allocating %zu bytes", pool->numUsedPages(), n);
		p[0] = 'a'; p[0x800] = 'b';
		if(fits && log.maps.size() > maps_before && ((uintptr_t)p + n - 1) / 0x1000 == (reg->base + reg->len - 1) / 0x1000) p[n - 1] = 'z';     // the last page of the reservation is accessible
		c.op("free");
		if(t.flip()) pool->free(p); else pool->deallocate(p, n);
		VCHECK(c, "C03", log.error.empty(), "%s", log.error.c_str());
		bool any_large_live = false; for(auto &m : log.maps) if(m.live && m.len > (1u << 20)) any_large_live = true;
		VCHECK(c, "C03", !any_large_live, "a reservation of a freed 4 GiB block is still mapped");
	}
	for(auto &m : log.maps) if(m.live) { munmap((void *)m.base, m.len); m.live = false; }
	HL = nullptr;
	c.nontrivial = true;
}

void verif_case(Ctx &c) {
	// Poisoning policies belong to the quantifier of C03 only: under another focus a read of a
	// poisoned byte (an ASan report, which cannot be attributed) would be blamed on the wrong property.
	bool with_poison = c.focus().empty() || c.focus() == "C03" || c.focus() == "C05";
	uint32_t raw = c.t.next();
	unsigned cfg = raw % (2 * NBASE);
	// one in sixteen of the tapes whose first element is not a small number runs the battery of 4 GiB requests instead (C01-C03)
	if((raw / (2 * NBASE)) % 16 == 15 && c.focus() != "C04" && c.focus() != "C05") { run_huge(c); return; }
	unsigned base = cfg % NBASE, variant = cfg / NBASE;
	// Under the C04 focus the poisoning configurations use the software shadow: what C04 says about a
	// poisoning policy (the existing blocks stay usable after a failed map) is checked explicitly.
	if(!with_poison && variant == 1) variant = c.focus() == "C04" ? 2 : 0;
	run_config(c, base, variant);
}

// C04: for base histories (a fixed family of tapes), fail every single map position and every
// pair of positions.
void verif_enum(Enum &e) {
	uint64_t total = 0, bases = 0;
	uint32_t x = 12345;
	auto lcg = [&]() { x = x * 1664525u + 1013904223u; return x >> 8; };
	for(unsigned base = 0; base < (e.tier == "thorough" ? 96u : 32u); base++) {
		unsigned cfg = base % (2 * NBASE);
		std::vector<uint32_t> ops;
		ops.push_back(12 + lcg() % 20);   // nops
		ops.push_back(1);                 // not the long variant
		for(int i = 0; i < 220; i++) ops.push_back(lcg() % 4096);
		auto mk = [&](uint32_t mode, uint32_t a, uint32_t b) {
			std::vector<uint32_t> t{cfg, mode};
			if(mode == 2) t.push_back(a); else if(mode == 3) { t.push_back(a); t.push_back(b); } else t.push_back(0);
			t.insert(t.end(), ops.begin(), ops.end());
			return t;
		};
		if(!e.run(mk(0, 0, 0))) return;
		unsigned M = g_last_map_calls;
		if(M < 2 || M > 26) continue;
		bases++;
		for(unsigned a = 0; a < M; a++) { if(!e.run(mk(2, a, 0))) return; total++; }
		for(unsigned a = 0; a < M; a++) for(unsigned b = a + 1; b < M; b++) { if(!e.run(mk(3, a, b))) return; total++; }
	}
	e.scope("base histories x every single and every pair of Policy::map positions failing", total);
	e.scope("base histories with 2..26 map calls", bases);
}
