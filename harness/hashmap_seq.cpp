// C14 (hash_map == reference association) and the hash_map part of C16.
// Subject: frg::hash_map<uint64_t, int|Tracked, H, track_alloc> with tape-chosen hash functions.
//
// Preconditions respected by the generator: insert() only for absent keys (the property says
// so; the map would store a duplicate), iterators are not used across updates.
#include <map>
#include <initializer_list>
#include <optional>
#include <vector>
#include <algorithm>
#include <frg/hash_map.hpp>
#include <frg/string.hpp>
#include "../engine/verif.hpp"
#include "../engine/track.hpp"

const char *verif_harness = "hashmap_seq";
using namespace verif;

void verif_case_reset() { reg().reset(); }

namespace {

struct H {
	int mode;
	// returns a 64-bit value on purpose: the map casts to unsigned int
	uint64_t operator()(uint64_t k) const {
		switch(mode) {
		case 0: return frg::hash<uint64_t>{}(k);
		case 1: return k;                                  // identity
		case 2: return 7;                                  // constant
		case 3: return k & 3;                              // four buckets
		case 4: return k >> 16;                            // top bits only
		case 5: return k * 0x9E3779B97F4A7C15ull;          // well mixed, high bits set
		default: return 0xFFFFFFFFFFFFFFFFull - (k & 1);   // near UINT_MAX
		}
	}
};

template<typename V> const char *vname();
template<> const char *vname<int>() { return "int"; }
template<> const char *vname<Tracked>() { return "Tracked"; }

template<typename V>
void run(Ctx &c) {
	using Map = frg::hash_map<uint64_t, V, H, track_alloc>;
	auto &t = c.t;
	int mode = t.pick(7);
	bool large = t.pick(3) == 0;
	bool init_list = t.pick(6) == 0;
	c.op("hash_map<uint64,%s> hash-mode %d %s universe", vname<V>(), mode, large ? "large" : "small");
	c.tagf("hash-mode-%d", mode);
	std::map<uint64_t, int> ref;
	std::vector<uint64_t> used;
	Map *m;
	if(init_list) {
		unsigned n = t.pick(4);
		c.op("init-list of %u", n);
		c.tag("init-list");
		if(n == 0) m = c.make<Map>(H{mode}, std::initializer_list<typename Map::entry_type>{}, track_alloc{});
		else if(n == 1) { m = new (c.raw(sizeof(Map))) Map(H{mode}, {{uint64_t(3), V(30)}}, track_alloc{}); ref[3] = 30; }
		else if(n == 2) { m = new (c.raw(sizeof(Map))) Map(H{mode}, {{uint64_t(3), V(30)}, {uint64_t(7), V(70)}}, track_alloc{}); ref[3] = 30; ref[7] = 70; }
		else { m = new (c.raw(sizeof(Map))) Map(H{mode}, {{uint64_t(3), V(30)}, {uint64_t(7), V(70)}, {uint64_t(11), V(110)}}, track_alloc{}); ref[3] = 30; ref[7] = 70; ref[11] = 110; }
		for(auto &kv : ref) used.push_back(kv.first);
	} else m = c.make<Map>(H{mode}, track_alloc{});
	int nextv = 1;
	bool rehash_with_entries = false, bracket_at_capacity = false, emptied_refilled = false, was_emptied = false, removed_any = false;
	size_t maxsize = 0;

	auto key = [&]() -> uint64_t {
		uint64_t k;
		unsigned how = t.pick(4);
		if(how == 0 && !used.empty()) k = used[t.pick(used.size())];
		else if(large) { k = t.pick(3) == 0 ? t.next64() : (uint64_t)t.pick(1u << 20); }
		else k = t.pick(16);
		if(std::find(used.begin(), used.end(), k) == used.end() && used.size() < 256) used.push_back(k);
		return k;
	};
	auto absent_key = [&]() -> uint64_t {
		for(int tries = 0; tries < 6; tries++) { uint64_t k = key(); if(!ref.count(k)) return k; }
		uint64_t k = (uint64_t(1) << 40) + nextv;     // usually fresh (values are never reused) - but a tape may have chosen this very key before
		while(large && ref.count(k)) k += 0x10001;
		for(uint64_t j = 0; j < 16 && !large; j++) if(!ref.count(j)) { k = j; break; }
		if(std::find(used.begin(), used.end(), k) == used.end() && used.size() < 256) used.push_back(k);
		return k;
	};
	auto check_all = [&](const char *after) {
		const Map &cm = *m;
		VCHECK(c, "C14", m->size() == ref.size(), "after %s: size() is %zu, reference has %zu", after, m->size(), ref.size());
		VCHECK(c, "C14", m->empty() == ref.empty(), "after %s: empty() is %d with %zu entries", after, (int)m->empty(), ref.size());
		for(uint64_t k : used) {
			auto it = ref.find(k);
			V *g = m->get(k);
			auto f = m->find(k);
			auto cf = cm.find(k);
			if(it == ref.end()) {
				VCHECK(c, "C14", g == nullptr, "after %s: get(%llu) finds an absent key", after, (unsigned long long)k);
				VCHECK(c, "C14", f == m->end() && !f, "after %s: find(%llu) finds an absent key", after, (unsigned long long)k);
				VCHECK(c, "C14", cf == cm.end() && !cf, "after %s: const find(%llu) finds an absent key", after, (unsigned long long)k);
			} else {
				VCHECK(c, "C14", g != nullptr, "after %s: get(%llu) does not find a present key", after, (unsigned long long)k);
				VCHECK(c, "C14", payload(*g) == it->second, "after %s: get(%llu) yields %d, reference %d", after, (unsigned long long)k, payload(*g), it->second);
				VCHECK(c, "C14", !(f == m->end()) && (bool)f, "after %s: find(%llu) does not find a present key", after, (unsigned long long)k);
				VCHECK(c, "C14", f->template get<0>() == k && &f->template get<1>() == g, "after %s: find(%llu) yields another entry", after, (unsigned long long)k);
				VCHECK(c, "C14", !(cf == cm.end()) && (bool)cf && &cf->template get<1>() == g, "after %s: const find(%llu) disagrees with get", after, (unsigned long long)k);
			}
		}
		c.check_san("C14");
		VTRACK_POLL(c);
	};
	auto find_positions = [&]() {
		// the full iteration order, then for some present keys: find(k) equals the walked iterator at k and ++ continues with the same successors
		std::vector<uint64_t> order;
		for(auto it = m->begin(); !(it == m->end()); ++it) { order.push_back(it->template get<0>()); if(order.size() > ref.size()) break; }
		if(order.size() != ref.size()) return;      // reported by iterate()
		size_t stride = order.size() > 12 ? order.size() / 12 : 1;
		for(size_t pos = 0; pos < order.size(); pos += stride) {
			auto f = m->find(order[pos]);
			auto w = m->begin(); for(size_t j = 0; j < pos; j++) ++w;
			VCHECK(c, "C14", f == w, "find(%llu) is not equal to the iterator that reaches that entry by walking from begin()", (unsigned long long)order[pos]);
			size_t k = pos;
			for(; !(f == m->end()) && k < order.size() + 1; ++f, ++k) VCHECK(c, "C14", k < order.size() && f->template get<0>() == order[k], "walking on from find(%llu): step %zu yields another entry than the iteration from begin()", (unsigned long long)order[pos], k - pos);
			VCHECK(c, "C14", k == order.size(), "walking on from find(%llu) ends after %zu of %zu remaining entries", (unsigned long long)order[pos], k - pos, order.size() - pos);
		}
		c.tag("find-as-position");
	};
	auto iterate = [&]() {
		std::map<uint64_t, int> seen;
		size_t n = 0;
		for(auto it = m->begin(); !(it == m->end()); ++it) {
			VCHECK(c, "C14", ++n <= ref.size(), "iteration yields more than %zu entries", ref.size());
			uint64_t k = it->template get<0>();
			VCHECK(c, "C14", !seen.count(k), "iteration yields key %llu twice", (unsigned long long)k);
			seen[k] = payload(it->template get<1>());
		}
		VCHECK(c, "C14", seen == ref, "iteration yields %zu entries that differ from the %zu reference entries", seen.size(), ref.size());
	};

	unsigned nops = 1 + t.pick(40);
	if(t.pick(4) == 0) nops += t.pick(200);
	for(unsigned i = 0; i < nops && !t.done(); i++) {
		uint64_t allocs_before = reg().allocs;
		size_t size_before = ref.size();
		unsigned op = t.pick(12);
		switch(op) {
		case 0: { uint64_t k = absent_key(); int x = nextv++; const V v(x); c.op("insert(%llu, const& %d)", (unsigned long long)k, x); m->insert(k, v); ref[k] = x; break; }
		case 1: { uint64_t k = absent_key(); int x = nextv++; V v(x); c.op("insert(%llu, lvalue %d)", (unsigned long long)k, x); m->insert(k, v); ref[k] = x;
			VCHECK(c, "C14", payload(v) == x, "insert(key, lvalue) changed its value argument from %d to %d: it was moved from", x, payload(v)); break; }
		case 2: { uint64_t k = absent_key(); int x = nextv++; c.op("insert(%llu, && %d)", (unsigned long long)k, x); m->insert(k, V(x)); ref[k] = x; break; }
		case 3: case 4: case 5: {
			uint64_t k = t.pick(3) ? absent_key() : key();
			bool present = ref.count(k);
			int x = nextv++;
			c.op("map[%llu] = %d (%s)", (unsigned long long)k, x, present ? "present" : "absent");
			uint64_t dc = reg().default_constructed;
			V &r = (*m)[k];
			if(std::is_same<V, Tracked>::value) {
				uint64_t d = reg().default_constructed - dc;
				VCHECK(c, "C14", d == (present ? 0u : 1u), "operator[] on a%s key default-constructed %llu values", present ? " present" : "n absent", (unsigned long long)d);
			}
			VCHECK(c, "C14", m->size() == ref.size() + (present ? 0 : 1), "operator[] on a%s key changed size() from %zu to %zu", present ? " present" : "n absent", ref.size(), m->size());
			if(present) VCHECK(c, "C14", payload(r) == ref[k], "operator[] on a present key yields %d, reference %d", payload(r), ref[k]);
			else VCHECK(c, "C14", payload(r) == 0, "operator[] on an absent key yields a value holding %d", payload(r));
			if(!present && size_before > 0 && reg().allocs - allocs_before >= 2) { bracket_at_capacity = true; c.tag("bracket-insert-at-capacity"); }
			r = V(x); ref[k] = x;
			break; }
		case 6: { uint64_t k = key(); c.op("get(%llu)", (unsigned long long)k); V *g = m->get(k); VCHECK(c, "C14", (g != nullptr) == (ref.count(k) != 0), "get(%llu) is %s", (unsigned long long)k, g ? "found, but the key is absent" : "null, but the key is present"); break; }
		case 7: case 8: {
			uint64_t k = t.flip() && !ref.empty() ? std::next(ref.begin(), t.pick(ref.size()))->first : key();
			bool present = ref.count(k);
			c.op("remove(%llu) (%s)", (unsigned long long)k, present ? "present" : "absent");
			auto r = m->remove(k);
			VCHECK(c, "C14", (bool)r == present, "remove(%llu) of a%s key returns %s", (unsigned long long)k, present ? " present" : "n absent", r ? "a value" : "null_opt");
			if(present) { VCHECK(c, "C14", payload(*r) == ref[k], "remove(%llu) returned %d, stored value was %d", (unsigned long long)k, payload(*r), ref[k]); ref.erase(k); removed_any = true; if(ref.empty()) was_emptied = true; }
			break; }
		case 9: c.op("iterate"); iterate(); find_positions(); break;
		default: { unsigned n = 1 + t.pick(24); c.op("insert x%u", n); for(unsigned j = 0; j < n; j++) { uint64_t k = absent_key(); int x = nextv++; if(t.flip()) m->insert(k, V(x)); else { (*m)[k] = V(x); } ref[k] = x; } break; }
		}
		if(reg().allocs - allocs_before >= 2 && size_before > 0 && ref.size() > size_before) { rehash_with_entries = true; }
		if(was_emptied && ref.size() >= 2) emptied_refilled = true;
		maxsize = std::max(maxsize, ref.size());
		check_all("the operation");
	}
	iterate();
	for(size_t th : {10, 20, 40, 80}) if(maxsize > th) c.tagf("size-past-%zu", th);
	if(emptied_refilled) c.tag("emptied-and-refilled");
	if(rehash_with_entries) c.tag("rehash-with-entries");
	c.op("destroy with %zu entries", ref.size());
	c.destroy(m);
	VTRACK_END(c);
	if(c.focus() == "C16") c.nontrivial = removed_any && maxsize >= 2;
	else c.nontrivial = rehash_with_entries && bracket_at_capacity;
}

// ---- arguments that refer into the map or into each other -------------------------------------
// Key with observable lifetime whose move leaves the source changed (payload -1, another hash);
// the value type carries its own key, so that m.insert(obj.name, std::move(obj)) passes a key that
// refers into the value being moved.
struct TKey : Tracked { TKey() = default; TKey(int x) : Tracked(x) {} };
struct KH { int mode; uint64_t operator()(const TKey &k) const { int v = k.get(); return mode == 0 ? (uint64_t)(unsigned)v * 2654435761u : mode == 1 ? (uint64_t)(v & 3) : (uint64_t)(unsigned)v; } };
struct Obj {
	TKey name; Tracked extra;
	Obj() = default;
	Obj(int k, int e) : name(k), extra(e) {}
};

void run_alias(Ctx &c) {
	using Map = frg::hash_map<TKey, Obj, KH, track_alloc>;
	auto &t = c.t;
	int mode = t.pick(3);
	c.op("hash_map<TKey,Obj> hash-mode %d (aliasing arguments)", mode);
	c.tag("alias-battery");
	Map *m = c.make<Map>(KH{mode}, track_alloc{});
	std::map<int, int> ref;
	std::map<int, int> refname;      // the name member of the value stored under a key (normally the key itself)
	auto name_of = [&](int k) { auto it = refname.find(k); return it == refname.end() ? k : it->second; };
	int nextv = 1;
	bool removed_any = false; size_t maxsize = 0;
	int fresh = 100;
	auto absent = [&]() { for(int tries = 0; tries < 8; tries++) { int k = t.pick(24); if(!ref.count(k)) return k; } return fresh++; };
	auto check_all = [&](const char *after) {
		VCHECK(c, "C14", m->size() == ref.size(), "after %s: size() is %zu, reference has %zu", after, m->size(), ref.size());
		for(int k = 0; k < fresh; k++) {
			if(k == 24) k = 100;
			TKey key(k);
			Obj *g = m->get(key);
			auto it = ref.find(k);
			VCHECK(c, "C14", (g != nullptr) == (it != ref.end()), "after %s: get(%d) is %s", after, k, g ? "found, but the key is absent" : "null, but the key is present");
			if(g) VCHECK(c, "C14", g->name.get() == name_of(k) && g->extra.get() == it->second, "after %s: get(%d) yields the value (%d, %d), reference value (%d, %d)", after, k, g->name.get(), g->extra.get(), name_of(k), it->second);
		}
		std::map<int, int> seen; size_t n = 0;
		for(auto it = m->begin(); !(it == m->end()); ++it) {
			VCHECK(c, "C14", ++n <= ref.size(), "after %s: iteration yields more than %zu entries", after, ref.size());
			int k = it->get<0>().get();
			VCHECK(c, "C14", !seen.count(k), "after %s: iteration yields key %d twice", after, k);
			VCHECK(c, "C14", it->get<1>().name.get() == name_of(k), "after %s: entry with key %d holds the value named %d, reference %d", after, k, it->get<1>().name.get(), name_of(k));
			seen[k] = it->get<1>().extra.get();
		}
		VCHECK(c, "C14", seen == ref, "after %s: iteration yields %zu entries that differ from the %zu reference entries", after, seen.size(), ref.size());
		c.check_san("C14");
		VTRACK_POLL(c);
	};
	unsigned nops = 1 + t.pick(40);
	for(unsigned i = 0; i < nops && !t.done(); i++) {
		unsigned op = t.pick(10);
		const char *what = "the operation";
		switch(op) {
		case 0: case 1: { int k = absent(), e = nextv++; Obj o(k, e); c.op("insert(o.name, move(o)) with o = (%d, %d)", k, e); c.tag("key-inside-moved-value"); m->insert(o.name, std::move(o)); ref[k] = e; break; }
		case 2: { int k = absent(), e = nextv++; const Obj o(k, e); c.op("insert(o.name, o) with o = (%d, %d)", k, e); m->insert(o.name, o); ref[k] = e; break; }
		case 3: if(!ref.empty()) { int src = std::next(ref.begin(), t.pick(ref.size()))->first; int k = absent(); TKey sk(src); Obj *g = m->get(sk); if(!g) break;
			c.op("insert(%d, copy of *get(%d)) (value refers into the map)", k, src); c.tag("value-inside-map");
			Obj tmp(k, g->extra.get()); m->insert(TKey(k), tmp); ref[k] = ref[src];
			VCHECK(c, "C14", tmp.name.get() == k && tmp.extra.get() == ref[src], "insert(key, lvalue) changed its value argument to (%d, %d): it was moved from", tmp.name.get(), tmp.extra.get()); break; }
		case 8: if(!ref.empty()) { int src = std::next(ref.begin(), t.pick(ref.size()))->first; int k = absent(); TKey sk(src); Obj *g = m->get(sk); if(!g) break;
			c.op("insert(%d, *get(%d)) (the value argument is an lvalue that lives in the map)", k, src); c.tag("insert-lvalue-from-map");
			m->insert(TKey(k), *g); ref[k] = ref[src]; refname[k] = name_of(src); break; }     // the source entry must stay as it is (checked by check_all)
		case 4: if(!ref.empty()) { int src = std::next(ref.begin(), t.pick(ref.size()))->first; int k = absent(); TKey sk(src); Obj *g = m->get(sk); if(!g) break;
			c.op("map[%d].extra = get(%d)->extra (operator[] may rehash)", k, src); c.tag("bracket-with-live-pointer");
			const Tracked &e = g->extra; Obj &slot = (*m)[TKey(k)]; slot.name = TKey(k); slot.extra = e; ref[k] = ref[src]; break; }
		case 5: if(!ref.empty()) { int k = std::next(ref.begin(), t.pick(ref.size()))->first; auto it = m->find(TKey(k)); if(it == m->end()) break;
			c.op("remove(find(%d)->key) (the key argument lives in the entry being removed)", k); c.tag("remove-by-entry-key");
			auto r = m->remove(it->get<0>()); VCHECK(c, "C14", (bool)r && r->extra.get() == ref[k], "remove through the entry's own key returned %s", r ? "another value" : "null_opt"); ref.erase(k); refname.erase(k); removed_any = true; break; }
		case 6: if(!ref.empty()) { int k = std::next(ref.begin(), t.pick(ref.size()))->first; c.op("remove(%d)", k); auto r = m->remove(TKey(k)); VCHECK(c, "C14", (bool)r && r->extra.get() == ref[k] && r->name.get() == name_of(k), "remove(%d) returned %s", k, r ? "another value" : "null_opt"); ref.erase(k); refname.erase(k); removed_any = true; } break;
		default: { unsigned n = 1 + t.pick(12); c.op("insert(o.name, move(o)) x%u", n); for(unsigned j = 0; j < n; j++) { int k = absent(), e = nextv++; Obj o(k, e); m->insert(o.name, std::move(o)); ref[k] = e; } break; }
		}
		maxsize = std::max(maxsize, ref.size());
		check_all(what);
	}
	c.op("destroy with %zu entries", ref.size());
	c.destroy(m);
	VTRACK_END(c);
	c.nontrivial = c.focus() == "C16" ? (removed_any && maxsize >= 2) : maxsize > 10;
}

// ---- the hash functors of hash.hpp / string.hpp with their key types, and heterogeneous get() ----------------
struct Header { long h0, h1; };
struct PNode { int v; };
struct Object : Header, PNode { int extra; };       // the PNode base does not sit at offset 0: Object* -> PNode* adjusts the pointer
// keys with observable lifetime, values that are trivially destructible: every key is destroyed exactly once, also by the
// destructor of a map that still holds entries (C16 looks at the registry, C14 at the contents)
void run_tracked_keys(Ctx &c) {
	auto &t = c.t;
	using Map = frg::hash_map<TKey, int, KH, track_alloc>;
	int mode = t.pick(3);
	c.op("hash_map<TKey,int> hash-mode %d (tracked keys, trivially destructible values)", mode);
	c.tag("tracked-keys-trivial-values");
	Map *m = c.make<Map>(KH{mode}, track_alloc{});
	std::map<int, int> ref; int nextv = 1; bool removed = false;
	unsigned nops = 2 + t.pick(40);
	for(unsigned i = 0; i < nops; i++) {
		int k = (int)t.pick(30);
		switch(t.pick(4)) {
		case 0: case 1: if(!ref.count(k)) { c.op("insert(%d)", k); m->insert(TKey(k), nextv); ref[k] = nextv++; } break;
		case 2: { c.op("map[%d]", k); (*m)[TKey(k)] = nextv; ref[k] = nextv++; break; }
		default: if(ref.count(k)) { c.op("remove(%d)", k); auto r = m->remove(TKey(k)); VCHECK(c, "C14", r && *r == ref[k], "remove(%d) returned another value", k); ref.erase(k); removed = true; } break;
		}
		VCHECK(c, "C14", m->size() == ref.size(), "size() is %zu, reference %zu", m->size(), ref.size());
		for(int j = 0; j < 30; j++) { int *g = m->get(TKey(j)); VCHECK(c, "C14", (g != nullptr) == (ref.count(j) != 0) && (!g || *g == ref[j]), "get(%d) disagrees with the reference", j); }
		VTRACK_POLL(c);
	}
	c.op("destroy with %zu entries", ref.size());
	if(!ref.empty()) c.tag("destroyed-nonempty-tracked-keys");
	c.destroy(m);
	VTRACK_END(c);
	c.nontrivial = c.focus() == "C16" ? (removed || !ref.empty()) : ref.size() >= 3;
}

// A value type that can be list-initialised from values of its own type (a JSON-like tree): `Value v{std::move(x)}` may pick the
// initializer_list constructor instead of the move constructor (CWG 2137: g++ does, clang 14 does not) and wrap x in a one-element
// list. The map has to hand back the stored value itself.
struct TreeVal {
	int v = 0; std::vector<TreeVal> kids;
	TreeVal() = default;
	TreeVal(int x) : v(x) {}
	TreeVal(std::initializer_list<TreeVal> il) : v(-1), kids(il) {}
};
void run_listlike_values(Ctx &c, int mode) {
	auto &t = c.t;
	using Map = frg::hash_map<uint64_t, TreeVal, H, track_alloc>;
	c.op("hash_map<uint64, tree value with an initializer_list constructor> hash-mode %d", mode);
	c.tag("list-initialisable-values");
	Map *m = c.make<Map>(H{mode}, track_alloc{});
	std::map<uint64_t, int> ref;
	int nextv = 1;
	unsigned nops = 2 + t.pick(40);
	for(unsigned i = 0; i < nops; i++) {
		uint64_t k = t.pick(12);
		switch(t.pick(5)) {
		case 0: case 1: if(!ref.count(k)) { int x = nextv++; c.op("insert(%llu, leaf %d)", (unsigned long long)k, x); m->insert(k, TreeVal(x)); ref[k] = x; } break;
		case 2: { int x = nextv++; c.op("map[%llu] = leaf %d", (unsigned long long)k, x); (*m)[k] = TreeVal(x); ref[k] = x; break; }
		case 3: { bool present = ref.count(k); c.op("remove(%llu) (%s)", (unsigned long long)k, present ? "present" : "absent");
			auto r = m->remove(k);
			VCHECK(c, "C14", r.has_value() == present, "remove(%llu) of a%s key returns %s", (unsigned long long)k, present ? " present" : "n absent", r.has_value() ? "a value" : "null_opt");
			if(present) { VCHECK(c, "C14", r->kids.empty() && r->v == ref[k], "remove(%llu) returned a value with %zu children and payload %d; the stored value was the leaf %d", (unsigned long long)k, r->kids.size(), r->v, ref[k]); ref.erase(k); }
			break; }
		default: { TreeVal *g = m->get(k); bool present = ref.count(k); VCHECK(c, "C14", (g != nullptr) == present && (!present || (g->kids.empty() && g->v == ref[k])), "get(%llu) disagrees with the reference", (unsigned long long)k); break; }
		}
		VCHECK(c, "C14", m->size() == ref.size(), "size() is %zu, reference %zu", m->size(), ref.size());
	}
	c.destroy(m);
	c.check_san("C14");
	c.nontrivial = nops >= 10;
}

void run_optional_values(Ctx &c) {
	auto &t = c.t;
	using V = frg::optional<int>;
	using Map = frg::hash_map<uint64_t, V, H, track_alloc>;
	uint32_t rm = t.next(); int mode = rm % 7;
	if((rm / 7) % 3 == 2) { run_listlike_values(c, mode); return; }
	c.op("hash_map<uint64, optional<int>> hash-mode %d (present keys may hold a disengaged value)", mode);
	c.tag("optional-valued-map");
	Map *m = c.make<Map>(H{mode}, track_alloc{});
	std::map<uint64_t, std::optional<int>> ref;
	int nextv = 1;
	unsigned nops = 2 + t.pick(40);
	for(unsigned i = 0; i < nops; i++) {
		uint64_t k = t.pick(12);
		bool engaged = t.flip();
		switch(t.pick(5)) {
		case 0: case 1: if(!ref.count(k)) { int x = nextv++; c.op("insert(%llu, %s)", (unsigned long long)k, engaged ? "engaged" : "disengaged"); if(engaged) { m->insert(k, V(x)); ref[k] = x; } else { m->insert(k, V()); ref[k] = std::nullopt; } } break;
		case 2: { int x = nextv++; c.op("map[%llu] = %s", (unsigned long long)k, engaged ? "engaged" : "disengaged"); (*m)[k] = engaged ? V(x) : V(); ref[k] = engaged ? std::optional<int>(x) : std::nullopt; break; }
		case 3: { bool present = ref.count(k); c.op("remove(%llu) (%s%s)", (unsigned long long)k, present ? "present" : "absent", present && !ref[k] ? ", disengaged value" : "");
			auto r = m->remove(k);
			VCHECK(c, "C14", r.has_value() == present, "remove(%llu) of a%s key returns %s", (unsigned long long)k, present ? " present" : "n absent", r.has_value() ? "a value" : "null_opt (a present key whose value is a disengaged optional is still present)");
			if(present) { VCHECK(c, "C14", r->has_value() == ref[k].has_value() && (!ref[k] || **r == *ref[k]), "remove(%llu) returned another value than the stored one", (unsigned long long)k); ref.erase(k); if(!r->has_value()) c.tag("removed-disengaged-value"); }
			break; }
		default: { V *g = m->get(k); bool present = ref.count(k); VCHECK(c, "C14", (g != nullptr) == present && (!present || (g->has_value() == ref[k].has_value() && (!ref[k] || **g == *ref[k]))), "get(%llu) disagrees with the reference", (unsigned long long)k); break; }
		}
		VCHECK(c, "C14", m->size() == ref.size(), "size() is %zu, reference %zu", m->size(), ref.size());
	}
	c.destroy(m);
	c.check_san("C14");
	VTRACK_END(c);
	c.nontrivial = nops >= 10;
}

void run_keyzoo(Ctx &c) {
	auto &t = c.t;
	unsigned which = t.pick(5);
	c.op("key types and hash functors of the library, battery %u", which);
	c.tagf("keyzoo-%u", which);
	unsigned nops = 4 + t.pick(40);
	switch(which) {
	case 0: {   // pointer keys, looked up through pointers to a derived class
		using Map = frg::hash_map<PNode *, int, frg::hash<PNode *>, track_alloc>;
		Object *objs = (Object *)c.raw(sizeof(Object) * 32); for(int i = 0; i < 32; i++) new (&objs[i]) Object();
		Map *m = c.make<Map>(frg::hash<PNode *>{}, track_alloc{});
		std::map<int, int> ref; int nextv = 1;
		for(unsigned i = 0; i < nops; i++) {
			int k = t.pick(32); PNode *key = &objs[k];
			switch(t.pick(4)) {
			case 0: case 1: if(!ref.count(k)) { c.op("insert(&obj[%d] as node*)", k); m->insert(key, nextv); ref[k] = nextv++; } break;
			case 2: if(ref.count(k)) { c.op("remove(&obj[%d])", k); auto r = m->remove(key); VCHECK(c, "C14", r && *r == ref[k], "remove(node*) of a present pointer key failed"); ref.erase(k); } break;
			default: { c.op("map[&obj[%d]]", k); bool present = ref.count(k); int &r = (*m)[key]; VCHECK(c, "C14", r == (present ? ref[k] : 0), "operator[] on a pointer key yields %d", r); r = nextv; ref[k] = nextv++; } break;
			}
			for(int j = 0; j < 32; j++) {
				Object *derived = &objs[j]; const PNode *ck = &objs[j];
				int *a = m->get(static_cast<PNode *>(derived)), *b = m->get(derived), *d = m->get(const_cast<PNode *>(ck));
				bool present = ref.count(j);
				VCHECK(c, "C14", (a != nullptr) == present && (!present || *a == ref[j]), "get(node*) of %s pointer key #%d", present ? "a present" : "an absent", j);
				VCHECK(c, "C14", b == a, "get(object*) of pointer key #%d %s although get(node*) %s: the key compares equal to the stored one (the derived pointer converts to it)", j, b ? "finds an entry" : "finds nothing", a ? "finds it" : "finds nothing");
				VCHECK(c, "C14", d == a, "get through a pointer obtained from a const pointer differs for key #%d", j);
			}
			VCHECK(c, "C14", m->size() == ref.size(), "size() is %zu, reference %zu", m->size(), ref.size());
		}
		c.destroy(m); break; }
	case 1: case 2: case 3: {   // integer keys of the specialised hash functors, negative and large values, looked up through other integer types
		auto body = [&](auto *mp, auto keyof) {
			std::map<long long, int> ref; int nextv = 1;
			for(unsigned i = 0; i < nops; i++) {
				unsigned sel = t.pick(24); auto key = keyof(sel);
				switch(t.pick(4)) {
				case 0: case 1: if(!ref.count((long long)key)) { c.op("insert(%lld)", (long long)key); mp->insert(key, nextv); ref[(long long)key] = nextv++; } break;
				case 2: if(ref.count((long long)key)) { c.op("remove(%lld)", (long long)key); auto r = mp->remove(key); VCHECK(c, "C14", r && *r == ref[(long long)key], "remove(%lld) failed", (long long)key); ref.erase((long long)key); } break;
				default: { c.op("map[%lld]", (long long)key); int &r = (*mp)[key]; r = nextv; ref[(long long)key] = nextv++; } break;
				}
				for(unsigned j = 0; j < 24; j++) { auto k2 = keyof(j); bool present = ref.count((long long)k2); int *g = mp->get(k2); auto f = mp->find(k2);
					VCHECK(c, "C14", (g != nullptr) == present && (!present || *g == ref[(long long)k2]) && (f != mp->end()) == present, "get/find(%lld) of %s key", (long long)k2, present ? "a present" : "an absent");
					long long wide = (long long)k2; int *gw = mp->get(wide);      // the same value as another integer type
					VCHECK(c, "C14", gw == g, "get(%lld as long long) %s although get with the key type %s", wide, gw ? "finds an entry" : "finds nothing", g ? "finds it" : "finds nothing"); }
				VCHECK(c, "C14", mp->size() == ref.size(), "size() is %zu, reference %zu", mp->size(), ref.size());
			}
		};
		static const long long vals[24] = {0, 1, -1, 2, -2, 7, -7, 1000, -1000, 65535, 65536, -65536, 2147483647ll, -2147483647ll - 1, 2147483646ll, -2147483647ll, 123456789, -123456789, 10, 20, 40, 80, -40, -80};
		if(which == 1) { using Map = frg::hash_map<int, int, frg::hash<int>, track_alloc>; Map *m = c.make<Map>(frg::hash<int>{}, track_alloc{}); body(m, [](unsigned s) { return (int)vals[s]; }); c.destroy(m); }
		else if(which == 2) { using Map = frg::hash_map<int64_t, int, frg::hash<int64_t>, track_alloc>; Map *m = c.make<Map>(frg::hash<int64_t>{}, track_alloc{});
			body(m, [](unsigned s) { return (int64_t)((uint64_t)vals[s] * (s & 1 ? 4294967297ull : 1ull)); }); c.destroy(m); }
		else { using Map = frg::hash_map<unsigned, int, frg::hash<unsigned>, track_alloc>; Map *m = c.make<Map>(frg::hash<unsigned>{}, track_alloc{}); body(m, [](unsigned s) { return (unsigned)vals[s]; }); c.destroy(m); }
		break; }
	default: {   // string_view keys: equal contents in different buffers are the same key
		using Map = frg::hash_map<frg::string_view, int, frg::hash<frg::string_view>, track_alloc>;
		Map *m = c.make<Map>(frg::hash<frg::string_view>{}, track_alloc{});
		static const char *words[12] = {"", "a", "b", "ab", "ba", "aa", "abc", "abd", "a\0b", "root", "rootfs", "x"};
		std::map<std::string, int> ref; int nextv = 1;
		auto view_of = [&](unsigned w, bool copy) { std::string s = w == 8 ? std::string("a\0b", 3) : std::string(words[w]); if(!copy) return frg::string_view(words[w], s.size());
			char *p = (char *)malloc(s.size()); c.arena.push_back({p, nullptr}); if(!s.empty()) memcpy(p, s.data(), s.size()); return frg::string_view(p, s.size()); };
		for(unsigned i = 0; i < nops; i++) {
			unsigned w = t.pick(12); std::string key = w == 8 ? std::string("a\0b", 3) : std::string(words[w]);
			switch(t.pick(4)) {
			case 0: case 1: if(!ref.count(key)) { c.op("insert(\"%s\")", words[w]); m->insert(view_of(w, false), nextv); ref[key] = nextv++; } break;
			case 2: if(ref.count(key)) { c.op("remove(\"%s\" in another buffer)", words[w]); auto r = m->remove(view_of(w, true)); VCHECK(c, "C14", r && *r == ref[key], "remove of a present string_view key through an equal view failed"); ref.erase(key); } break;
			default: { c.op("map[\"%s\"]", words[w]); int &r = (*m)[view_of(w, true)]; r = nextv; ref[key] = nextv++; } break;
			}
			for(unsigned j = 0; j < 12; j++) { std::string k2 = j == 8 ? std::string("a\0b", 3) : std::string(words[j]); bool present = ref.count(k2); int *g = m->get(view_of(j, true));
				VCHECK(c, "C14", (g != nullptr) == present && (!present || *g == ref[k2]), "get(\"%s\" in another buffer) of %s key", words[j], present ? "a present" : "an absent"); }
			VCHECK(c, "C14", m->size() == ref.size(), "size() is %zu, reference %zu", m->size(), ref.size());
		}
		c.destroy(m); break; }
	}
	c.check_san("C14");
	VTRACK_END(c);
	c.nontrivial = nops >= 12;
}

} // namespace

void verif_case(Ctx &c) {
	unsigned kind = c.t.pick(8);
	if(kind == 7) { run_tracked_keys(c); return; }
	if(kind == 6) { if(c.focus() == "C16") run_tracked_keys(c); else run_optional_values(c); }
	else if(kind == 5) { if(c.focus() == "C16") run<Tracked>(c); else run_keyzoo(c); }
	else if(kind == 4) run_alias(c);
	else if(kind < 2 && c.focus() != "C16") run<int>(c); else run<Tracked>(c);
}
