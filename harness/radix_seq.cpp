// C09 (exact map, stable addresses, ordered iteration) and the radix-tree part of C16.
// Subject: frg::rcu_radixtree<Val, track_alloc>, single-threaded histories.
//
// Preconditions respected by the generator (read off the FRG_ASSERTs and the callers):
//   insert(k)  only for absent k (insert asserts that it inserted)
//   erase(k)   only for present k
//   erase() only clears the presence bit; what happens to the erased value is left open (DESIGN.md C16):
//   the harness disclaims it in the lifetime registry.
#include <map>
#include <vector>
#include <algorithm>
#include <frg/rcu_radixtree.hpp>
#include "../engine/verif.hpp"
#include "../engine/track.hpp"

const char *verif_harness = "radix_seq";
using namespace verif;

struct Val {
	uint64_t key;
	Tracked tr;
};
using Tree = frg::rcu_radixtree<Val, track_alloc>;

void verif_case_reset() { reg().reset(); }

namespace {
struct Ref { Val *addr; int gen; };

uint64_t nib_replace(uint64_t k, unsigned d, unsigned v) {   // d = 0 is the most significant nibble
	unsigned sh = 60 - 4 * d;
	return (k & ~(uint64_t(0xF) << sh)) | (uint64_t(v & 0xF) << sh);
}
unsigned nib_at(uint64_t k, unsigned d) { return (k >> (60 - 4 * d)) & 0xF; }
int first_diff(uint64_t a, uint64_t b) { for(int d = 0; d < 16; d++) if(nib_at(a, d) != nib_at(b, d)) return d; return 16; }
}

void verif_case(Ctx &c) {
	auto &t = c.t;
	Tree *tree = c.make<Tree>(track_alloc{});
	std::map<uint64_t, Ref> ref;
	std::vector<uint64_t> universe;            // every key ever used in this case
	int gen = 0;
	bool did_split = false, did_reinsert = false;
	std::vector<uint64_t> erased_once;
	size_t max_present = 0;

	auto new_key = [&]() -> uint64_t {
		static const uint64_t bases[] = {0, ~uint64_t(0), 0x8000000000000000ull, 0x0123456789abcdefull, 1, 0xfffffffffffffff0ull};
		unsigned how = universe.empty() ? 0 : t.pick(5);
		uint64_t k;
		switch(how) {
		case 0: { unsigned b = t.pick(7); k = b < 6 ? bases[b] : t.next64(); break; }
		case 1: case 2: {   // differ from an existing key first at nibble d
			uint64_t o = universe[t.pick(universe.size())];
			unsigned d = t.pick(16);
			unsigned v = (nib_at(o, d) + 1 + t.pick(15)) & 0xF;
			k = nib_replace(o, d, v);
			// optionally scramble the nibbles below d
			if(t.pick(3) == 0 && d < 15) { uint64_t low = t.next64(); uint64_t m = (d == 15) ? 0 : ((uint64_t(1) << (60 - 4 * d)) - 1); k = (k & ~m) | (low & m); }
			break; }
		case 3: { uint64_t o = universe[t.pick(universe.size())]; k = o + t.pick(16); break; }   // dense run
		default: k = universe[t.pick(universe.size())]; break;                                    // reuse
		}
		if(std::find(universe.begin(), universe.end(), k) == universe.end() && universe.size() < 48) universe.push_back(k);
		return k;
	};

	auto check_all = [&](const char *after) {
		for(uint64_t k : universe) {
			Val *p = tree->find(k);
			auto it = ref.find(k);
			if(it == ref.end()) {
				VCHECK(c, "C09", p == nullptr, "after %s: find(%#llx) returned %p for an absent key", after, (unsigned long long)k, (void *)p);
			} else {
				VCHECK(c, "C09", p != nullptr, "after %s: present key %#llx is no longer found", after, (unsigned long long)k);
				VCHECK(c, "C09", p == it->second.addr, "after %s: address of key %#llx changed from %p to %p", after, (unsigned long long)k, (void *)it->second.addr, (void *)p);
				VCHECK(c, "C09", p->key == k && p->tr.get() == it->second.gen, "after %s: value under key %#llx holds (%#llx, %d), expected gen %d", after,
						(unsigned long long)k, (unsigned long long)p->key, p->tr.v, it->second.gen);
			}
		}
		c.check_san("C09");
		VTRACK_POLL(c);
	};
	auto iterate = [&](const char *after) {
		auto it = tree->begin();
		auto rit = ref.begin();
		size_t n = 0;
		for(; it != tree->end(); ++it, ++rit, ++n) {
			VCHECK(c, "C09", rit != ref.end(), "after %s: iteration yields more than the %zu present values", after, ref.size());
			VCHECK(c, "C09", &*it == rit->second.addr && it->key == rit->first,
					"after %s: iteration position %zu yields key %#llx, expected %#llx", after, n, (unsigned long long)it->key, (unsigned long long)rit->first);
			VCHECK(c, "C09", n <= ref.size(), "iteration does not end");
		}
		VCHECK(c, "C09", rit == ref.end(), "after %s: iteration ended after %zu of %zu present values", after, n, ref.size());
	};
	auto note_split = [&](uint64_t k) {
		// classify at which nibble k first differs from its nearest present neighbour(s)
		int best = -1;
		for(auto &kv : ref) { int d = first_diff(kv.first, k); if(d < 16 && d > best) best = d; }
		if(best >= 0 && best < 15) { did_split = true; c.tagf("split-depth-%d", best); }
		else if(best == 15) c.tag("same-leaf");
	};

	unsigned nops = 1 + t.pick(40);
	if(t.pick(8) == 0) nops += t.pick(200);
	for(unsigned i = 0; i < nops && !t.done(); i++) {
		unsigned op = t.pick(8);
		switch(op) {
		case 0: case 1: case 2: {   // insert an absent key (find_or_insert when present)
			uint64_t k = new_key();
			if(!ref.count(k)) {
				note_split(k);
				bool use_insert = t.flip();
				++gen;
				Val *p;
				if(use_insert) { c.op("insert(%#llx)", (unsigned long long)k); p = tree->insert(k, k, gen); }
				else {
					c.op("find_or_insert(%#llx) absent", (unsigned long long)k);
					auto r = tree->find_or_insert(k, k, gen);
					VCHECK(c, "C09", r.get<1>(), "find_or_insert(%#llx) of an absent key reports not inserted", (unsigned long long)k);
					p = r.get<0>();
				}
				VCHECK(c, "C09", p != nullptr, "insert(%#llx) returned null", (unsigned long long)k);
				VCHECK(c, "C09", p->key == k && p->tr.get() == gen, "insert(%#llx) returned a value holding key %#llx", (unsigned long long)k, (unsigned long long)p->key);
				if(std::find(erased_once.begin(), erased_once.end(), k) != erased_once.end()) { did_reinsert = true; c.tag("reinsert"); }
				ref[k] = Ref{p, gen};
			} else {
				c.op("find_or_insert(%#llx) present", (unsigned long long)k);
				uint64_t before = reg().constructed;
				auto r = tree->find_or_insert(k, k, -7);
				VCHECK(c, "C09", !r.get<1>(), "find_or_insert(%#llx) of a present key reports inserted", (unsigned long long)k);
				VCHECK(c, "C09", r.get<0>() == ref[k].addr, "find_or_insert(%#llx) of a present key returned another address", (unsigned long long)k);
				VCHECK(c, "C09", reg().constructed == before, "find_or_insert(%#llx) of a present key constructed a second value", (unsigned long long)k);
			}
			check_all("insert");
			break; }
		case 3: case 4: {           // erase a present key
			if(ref.empty()) break;
			auto it = ref.begin(); std::advance(it, t.pick(ref.size()));
			uint64_t k = it->first;
			c.op("erase(%#llx)", (unsigned long long)k);
			Val *p = tree->find(k);
			VCHECK(c, "C09", p == it->second.addr, "find(%#llx) before erase returned %p", (unsigned long long)k, (void *)p);
			tree->erase(k);
			// erase() only clears the presence bit. Who destroys the erased value, and when, is left open by C16 for this container (the
			// caller after a grace period, the tree when it uses the slot again or dies, or nobody): the registry stops counting it.
			disclaim(&it->second.addr->tr);
			c.tag("erase");
			erased_once.push_back(k);
			ref.erase(it);
			check_all("erase");
			break; }
		case 5: {                   // find: present / absent / near miss
			uint64_t k;
			unsigned how = t.pick(3);
			if(how == 0 || ref.empty()) k = new_key();
			else {
				auto it = ref.begin(); std::advance(it, t.pick(ref.size()));
				k = it->first;
				if(how == 2) { unsigned d = t.pick(16); k = nib_replace(k, d, nib_at(k, d) + 1 + t.pick(15)); if(std::find(universe.begin(), universe.end(), k) == universe.end() && universe.size() < 48) universe.push_back(k); }
			}
			c.op("find(%#llx)", (unsigned long long)k);
			Val *p = tree->find(k);
			auto it = ref.find(k);
			if(it == ref.end()) VCHECK(c, "C09", p == nullptr, "find(%#llx) returned %p for an absent key", (unsigned long long)k, (void *)p);
			else VCHECK(c, "C09", p == it->second.addr, "find(%#llx) returned %p, expected %p", (unsigned long long)k, (void *)p, (void *)it->second.addr);
			break; }
		default:
			c.op("iterate");
			iterate("iterate");
			break;
		}
		max_present = std::max(max_present, ref.size());
	}
	iterate("the last operation");
	check_all("the last operation");

	// C16: destroying the tree destroys exactly the present values and returns every node
	uint64_t destroyed_before = reg().destroyed;
	size_t present = ref.size();
	c.op("~tree with %zu present", present);
	c.destroy(tree);
	VTRACK_POLL(c);
	VCHECK(c, "C16", reg().destroyed - destroyed_before == present, "~rcu_radixtree destroyed %llu values, %zu were present",
			(unsigned long long)(reg().destroyed - destroyed_before), present);
	VTRACK_END(c);

	// A second, small tree whose values are trivially default constructible (the form in which kernels store pointers and counters): the
	// argument-less find_or_insert(k) / insert(k) creates a value-initialised - zero - value, also in a slot that held another value
	// before it was erased. Driven by what is left of the tape (works with an exhausted tape too).
	if(c.focus() != "C16") {
		struct Plain { long a; void *p; };
		using PTree = frg::rcu_radixtree<Plain, track_alloc>;
		PTree *pt = c.make<PTree>(track_alloc{});
		uint64_t k0 = t.next64();
		uint64_t keys[3] = {k0, k0 ^ 0x10, k0 ^ 0x0100000000000000ull};
		std::map<uint64_t, long> pref;
		unsigned rounds = 2 + t.pick(6);
		c.op("plain-value tree: %u rounds over %#llx and two neighbours", rounds, (unsigned long long)k0);
		for(unsigned i = 0; i < rounds; i++) {
			uint64_t k = keys[t.pick(3)];
			unsigned what = t.pick(4);
			if(!pref.count(k)) {
				if(what & 1) { long v = 1000 + (long)i; auto *q = pt->insert(k, Plain{v, &pref}); VCHECK(c, "C09", q && q->a == v && q->p == &pref, "plain tree: insert(%#llx, {%ld, p}) stores {%ld, %p}", (unsigned long long)k, v, q ? q->a : -1, q ? q->p : nullptr); pref[k] = v; }
				else { auto r = pt->find_or_insert(k); Plain *q = r.get<0>(); VCHECK(c, "C09", r.get<1>() && q && q->a == 0 && q->p == nullptr, "plain tree: find_or_insert(%#llx) without constructor arguments yields {%ld, %p} (inserted: %d); a value-initialised value is {0, null}", (unsigned long long)k, q ? q->a : -1, q ? q->p : nullptr, (int)r.get<1>()); pref[k] = 0; c.tag("plain-value-default-insert"); }
			} else if(what < 2) { pt->erase(k); pref.erase(k); c.tag("plain-value-erase"); }
			for(auto &kv : pref) { Plain *q = pt->find(kv.first); VCHECK(c, "C09", q && q->a == kv.second, "plain tree: find(%#llx) yields %ld, the value most recently inserted under that key is %ld", (unsigned long long)kv.first, q ? q->a : -1, kv.second); }
			for(uint64_t kk : keys) if(!pref.count(kk)) VCHECK(c, "C09", pt->find(kk) == nullptr, "plain tree: find(%#llx) finds an erased or absent key", (unsigned long long)kk);
		}
		c.destroy(pt);
		c.check_san("C09");
	}

	if(c.focus() == "C16") c.nontrivial = present >= 1 && !erased_once.empty();
	else c.nontrivial = max_present >= 3 && did_split && did_reinsert;
	if(max_present >= 3) c.tag("present>=3");
}

// Small-scope enumeration: every ordered pair/triple of keys that first differ at each nibble
// position, inserted, looked up, erased and re-inserted.
void verif_enum(Enum &e) {
	// The decoder is driven by choices, so the enumeration is expressed as tapes: it walks the
	// choice space of short histories built from new_key() cases 0-3.
	uint64_t n = 0;
	// ops: insert via case 0 (op 0), key how=0 base b; then derived keys how=1 with nibble d
	for(uint32_t b = 0; b < 6; b++)
		for(uint32_t d = 0; d < 16; d++)
			for(uint32_t v = 0; v < 15; v += 7)
				for(uint32_t third = 0; third < 17; third++) {
					std::vector<uint32_t> tape;
					tape.push_back(8);                         // nops = 9
					tape.push_back(0);                         // not the long variant
					// op insert, first key: universe empty -> how = 0 without a pick
					tape.insert(tape.end(), {0, b, 1});        // op 0, base b, use insert
					// op insert, derived key: how = 1, from universe[0], nibble d, value v, no scramble
					tape.insert(tape.end(), {0, 1, 0, d, v, 1, 1});
					if(third < 16) tape.insert(tape.end(), {0, 1, 1, third, 3, 1, 0});   // third key from universe[1]
					tape.insert(tape.end(), {7});              // iterate
					tape.insert(tape.end(), {3, 0});           // erase first present
					tape.insert(tape.end(), {0, 4, 0, 1});     // re-insert universe[0] (how=4 reuse)
					tape.insert(tape.end(), {3, 1});           // erase second present
					tape.insert(tape.end(), {7});
					if(!e.run(tape)) return;
					n++;
				}
	e.scope("base x first-differing-nibble x value x third-key histories", n);
}
