// C07: frg::interval_tree overlap queries against a linear scan.
// Preconditions: insert only with lo <= hi (asserted), remove only contained nodes, queries with lb <= ub.
#include <vector>
#include <cstring>
#include <algorithm>
#include <frg/interval_tree.hpp>
#include "../engine/verif.hpp"

const char *verif_harness = "interval_seq";
using namespace verif;

namespace {
// user-provided constructor that does not mention the hooks, objects created by default-initialisation in 0xA5-filled storage
struct Node {
	int lo, hi, serial;
	int hits;
	frg::rbtree_hook rb;
	frg::interval_hook<int> ih;
	Node() { lo = hi = serial = hits = 0; }
};
using ITree = frg::interval_tree<Node, int, &Node::lo, &Node::hi, &Node::rb, &Node::ih>;
constexpr int POOL = 200;

struct Run {
	Ctx &c; ITree *tree; std::vector<Node *> ref; bool removed_before_query = false, interesting_query = false;
	int off = 0;      // the whole universe is shifted by this amount (negative end points: nothing in the tree may assume P{} is a lower bound)
	void query(int lb, int ub, bool single) {
		for(Node *n : ref) n->hits = 0;
		size_t calls = 0;
		auto fn = [&](Node *n) { n->hits++; calls++; };
		if(single) tree->for_overlaps(fn, lb); else tree->for_overlaps(fn, lb, ub);
		size_t expect = 0;
		for(Node *n : ref) {
			bool ov = n->lo <= ub && lb <= n->hi;
			if(ov) expect++;
			VCHECK(c, "C07", n->hits == (ov ? 1 : 0), "for_overlaps(%d, %d)%s: the callback ran %d time(s) for the stored interval [%d, %d] (#%d), which %s", lb, ub, single ? " (one-argument form)" : "",
					n->hits, n->lo, n->hi, n->serial, ov ? "overlaps" : "does not overlap");
		}
		VCHECK(c, "C07", calls == expect, "for_overlaps(%d, %d): %zu callbacks for %zu overlapping intervals (callback for a node that is not stored?)", lb, ub, calls, expect);
		if(ref.size() >= 3 && expect > 0 && expect < ref.size() && removed_before_query) interesting_query = true;
	}
	void all_queries(int U) {
		for(int lb = 0; lb < U; lb++) for(int ub = lb; ub < U; ub++) query(off + lb, off + ub, false);
		for(int p = 0; p < U; p++) query(off + p, off + p, true);
		query(off - 5, off - 1, false); query(off + U, off + U + 3, false); query(off - 3, off + U + 3, false);
	}
};

void run(Ctx &c, bool scripted) {
	auto &t = c.t;
	Node *pool = (Node *)c.raw(sizeof(Node) * POOL);
	memset((void *)pool, 0xA5, sizeof(Node) * POOL);
	for(int i = 0; i < POOL; i++) { new (&pool[i]) Node; pool[i].serial = i; }
	Run r{c, c.make<ITree>(), {}};
	int next_free = 0; std::vector<Node *> free_list;
	uint32_t rs = scripted ? 0 : t.next();
	bool small = scripted || rs % 3 != 0;
	// toggle histories: a handful of node objects that are removed and inserted again and again without being re-constructed (the tree runs empty often)
	bool toggle = !scripted && (rs / 3) % 4 == 3;
	int cap = toggle ? 3 + (int)((rs / 12) % 3) : POOL;
	if(toggle) c.tag("toggle-small-node-pool");
	int U = scripted ? 4 : (small ? 8 : 100000);
	static const int offsets[] = {0, 0, -3, -8, -20, -100000, -2000000000};
	int OFF = scripted ? 0 : offsets[t.pick(7)];
	if(OFF < -100000 && !small) OFF = -1000000000;         // keep off + U + 2000 inside int
	r.off = OFF;
	if(OFF < 0) c.tag(OFF + U <= 0 ? "universe-all-negative" : "universe-straddles-zero");
	c.op("%s universe %d..%d", scripted ? "scripted" : "history", OFF, OFF + U - 1);
	auto ins = [&](int lo, int hi) {
		Node *n;
		if(!free_list.empty() && !scripted && (t.pick(3) == 0 || next_free >= cap)) {
			size_t at = toggle ? t.pick(free_list.size()) : free_list.size() - 1;
			n = free_list[at]; free_list.erase(free_list.begin() + at); c.tag("reinsert-removed-node");
			if(r.ref.empty()) c.tag("reinsert-into-empty-tree");
			// the same mapping comes back: most re-insertions keep the interval the node object had before
			if(toggle && t.pick(4) != 0) { lo = n->lo; hi = n->hi; }
		} else if(next_free < cap) n = &pool[next_free++]; else return;
		n->lo = lo; n->hi = hi;
		c.op("insert [%d,%d]", lo, hi);
		if(lo == hi) c.tag("point-interval");
		for(Node *o : r.ref) { if(o->lo == lo && o->hi == hi) c.tag("duplicate-interval"); else if(o->lo <= lo && hi <= o->hi) c.tag("nested-interval"); else if(o->hi == lo || hi == o->lo) c.tag("touching-intervals"); }
		r.tree->insert(n);
		r.ref.push_back(n);
	};
	auto rem = [&](size_t idx) {
		Node *n = r.ref[idx];
		c.op("remove [%d,%d]", n->lo, n->hi);
		r.tree->remove(n);
		r.ref.erase(r.ref.begin() + idx);
		free_list.push_back(n);
		r.removed_before_query = true;
	};
	if(scripted) {
		unsigned n = t.pick(5);
		for(unsigned i = 0; i < n; i++) { int lo = t.pick(4); int hi = lo + t.pick(4 - lo); ins(lo, hi); r.all_queries(U); }
		if(!r.ref.empty() && !t.done()) { unsigned k = t.pick(r.ref.size() + 1); if(k < r.ref.size()) { rem(k); r.all_queries(U); } }
		c.tag("scripted");
	} else {
		unsigned nops = 1 + t.pick(40);
		if(t.pick(6) == 0) nops += t.pick(150);
		if(toggle) nops += 40;
		for(unsigned i = 0; i < nops && !t.done(); i++) {
			unsigned op = t.pick(10);
			if(op < 5 || r.ref.empty()) { int lo = t.pick(U); int hi = lo + (t.pick(3) == 0 ? 0 : t.pick(small ? U - lo : 1000)); ins(OFF + lo, OFF + hi); }
			else if(op < 8) rem(t.pick(r.ref.size()));
			else { int lb = OFF + (int)t.pick(U), ub = lb + (int)t.pick(small ? OFF + U - lb : 2000); bool single = t.pick(4) == 0; if(single) ub = lb; c.op("query(%d,%d)", lb, ub); r.query(lb, ub, single); continue; }
			if(small) r.all_queries(U);
			else { for(int q = 0; q < 12; q++) { Node *n = r.ref.empty() ? nullptr : r.ref[t.pick(r.ref.size())]; int lb = n ? n->lo - 1 + (int)t.pick(3) : OFF + (int)t.pick(U); if(lb < OFF) lb = OFF; int ub = lb + (int)t.pick(n ? n->hi - n->lo + 3 : 100); r.query(lb, ub, false); } }
		}
		c.tag(small ? "small-universe" : "large-universe");
	}
	c.check_san("C07");
	c.nontrivial = r.interesting_query;
}
}

// ---- an end point type whose move constructor changes its source -------------------------------
// (a string-like key: moved-from equals the value-initialised P{}). The tree may copy end points, but a query must be
// evaluated with the values it was given; which of two by-value parameters is initialised first is up to the compiler,
// so this is also run in the g++ build.
namespace {
struct MI {
	int v;
	MI() : v(0) {}
	MI(int x) : v(x) {}
	MI(const MI &o) : v(o.v) {}
	MI(MI &&o) noexcept : v(o.v) { o.v = 0; }
	MI &operator=(const MI &o) { v = o.v; return *this; }
	MI &operator=(MI &&o) noexcept { v = o.v; if(this != &o) o.v = 0; return *this; }
	bool operator<(const MI &o) const { return v < o.v; }
	bool operator<=(const MI &o) const { return v <= o.v; }
	bool operator>(const MI &o) const { return v > o.v; }
	bool operator>=(const MI &o) const { return v >= o.v; }
	bool operator==(const MI &o) const { return v == o.v; }
};
struct MNode {
	MI lo, hi; int serial, hits;
	frg::rbtree_hook rb;
	frg::interval_hook<MI> ih;
	MNode() { serial = hits = 0; }
};
using MTree = frg::interval_tree<MNode, MI, &MNode::lo, &MNode::hi, &MNode::rb, &MNode::ih>;
}
void run_moving(Ctx &c) {
	auto &t = c.t;
	constexpr int N = 40;
	MNode *pool = (MNode *)c.raw(sizeof(MNode) * N);
	memset((void *)pool, 0xA5, sizeof(MNode) * N);
	for(int i = 0; i < N; i++) { new (&pool[i]) MNode; pool[i].serial = i; }
	MTree *tree = c.make<MTree>();
	std::vector<MNode *> ref; int next_free = 0;
	int U = 9, OFF = t.flip() ? 1 : -4;     // end points in 1..9 or -4..4 (0, the moved-from value, lies outside resp. inside the universe)
	c.op("interval tree over an end point type with a stealing move constructor, universe %d..%d", OFF, OFF + U - 1);
	c.tag("moving-endpoint-type");
	unsigned nops = 2 + t.pick(30);
	bool interesting = false;
	for(unsigned i = 0; i < nops; i++) {
		unsigned op = t.pick(6);
		if((op < 3 || ref.empty()) && next_free < N) { int lo = OFF + (int)t.pick(U); int hi = lo + (int)t.pick(OFF + U - lo); MNode *n = &pool[next_free++]; n->lo = MI(lo); n->hi = MI(hi); c.op("insert [%d,%d]", lo, hi); tree->insert(n); ref.push_back(n); }
		else if(op == 3 && !ref.empty()) { size_t k = t.pick(ref.size()); c.op("remove [%d,%d]", ref[k]->lo.v, ref[k]->hi.v); tree->remove(ref[k]); ref.erase(ref.begin() + k); }
		for(int lb = OFF - 1; lb <= OFF + U; lb++) for(int ub = lb; ub <= OFF + U; ub += (ub - lb < 2 ? 1 : 3)) {
			for(int form = 0; form < (lb == ub ? 2 : 1); form++) {
				for(MNode *n : ref) n->hits = 0;
				auto fn = [&](MNode *n) { n->hits++; };
				if(form == 1) { MI point(lb); tree->for_overlaps(fn, point); VCHECK(c, "C07", point.v == lb, "for_overlaps(fn, p) changed its argument"); }
				else { MI a(lb), b(ub); tree->for_overlaps(fn, a, b); }
				size_t expect = 0;
				for(MNode *n : ref) { bool ov = n->lo.v <= ub && lb <= n->hi.v; if(ov) expect++;
					VCHECK(c, "C07", n->hits == (ov ? 1 : 0), "for_overlaps(%d, %d)%s: the callback ran %d time(s) for the stored interval [%d, %d], which %s", lb, ub, form ? " (one-argument form)" : "", n->hits, n->lo.v, n->hi.v, ov ? "overlaps" : "does not overlap"); }
				if(expect > 0 && expect < ref.size()) interesting = true;
			}
		}
		for(MNode *n : ref) VCHECK(c, "C07", n->lo.v <= n->hi.v, "a stored interval was changed to [%d,%d]", n->lo.v, n->hi.v);
	}
	c.check_san("C07");
	c.nontrivial = interesting;
}

void verif_case(Ctx &c) { unsigned k = c.t.pick(5); if(k == 0) run(c, true); else if(k == 4) run_moving(c); else run(c, false); }

// all sequences of <= 4 intervals over endpoints 0..3 (10 intervals) in every insertion order,
// every single removal (or none), all queries after every step
void verif_enum(Enum &e) {
	std::vector<std::pair<uint32_t, uint32_t>> iv;
	for(uint32_t lo = 0; lo < 4; lo++) for(uint32_t d = 0; lo + d < 4; d++) iv.push_back({lo, d});
	uint64_t count = 0;
	unsigned maxn = e.tier == "thorough" ? 4 : 3;
	std::vector<uint32_t> idx;
	std::function<bool(unsigned)> rec = [&](unsigned n) -> bool {
		if(idx.size() == n) {
			for(uint32_t k = 0; k <= n; k++) {
				std::vector<uint32_t> tape{0, n};
				for(uint32_t i : idx) { tape.push_back(iv[i].first); tape.push_back(iv[i].second); }
				tape.push_back(k);
				if(!e.run(tape)) return false;
				count++;
			}
			return true;
		}
		for(uint32_t i = 0; i < iv.size(); i++) { idx.push_back(i); bool ok = rec(n); idx.pop_back(); if(!ok) return false; }
		return true;
	};
	for(unsigned n = 1; n <= maxn; n++) if(!rec(n)) return;
	e.scope("all sequences of <= maxn intervals over endpoints 0..3 x every single removal (or none) x all queries after every step", count);
}
