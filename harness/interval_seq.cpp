// C07: frg::interval_tree overlap queries against a linear scan.
// Preconditions: insert only with lo <= hi (asserted), remove only contained nodes, queries with lb <= ub.
#include <vector>
#include <algorithm>
#include <frg/interval_tree.hpp>
#include "../engine/verif.hpp"

const char *verif_harness = "interval_seq";
using namespace verif;

namespace {
struct Node {
	int lo = 0, hi = 0, serial = 0;
	int hits = 0;
	frg::rbtree_hook rb;
	frg::interval_hook<int> ih;
};
using ITree = frg::interval_tree<Node, int, &Node::lo, &Node::hi, &Node::rb, &Node::ih>;
constexpr int POOL = 200;

struct Run {
	Ctx &c; ITree *tree; std::vector<Node *> ref; bool removed_before_query = false, interesting_query = false;
	void query(int lb, int ub, bool single) {
		for(Node *n : ref) n->hits = 0;
		size_t calls = 0;
		auto fn = [&](Node *n) { n->hits++; calls++; };
		if(single) tree->for_overlaps(fn, lb); else tree->for_overlaps(fn, lb, ub);
		size_t expect = 0;
		for(Node *n : ref) {
			bool ov = n->lo <= ub && lb <= n->hi;
			if(ov) expect++;
			VCHECK(c, "C07", n->hits == (ov ? 1 : 0), "for_overlaps(%d, %d)%s: the callback ran %d time(s) for the stored interval [%d, %d] (#%d), which %s", lb, ub, single ? " (one-argument form)" : "",
					n->hits, n->lo, n->hi, n->serial, ov ? "overlaps" : "does not overlap");
		}
		VCHECK(c, "C07", calls == expect, "for_overlaps(%d, %d): %zu callbacks for %zu overlapping intervals (callback for a node that is not stored?)", lb, ub, calls, expect);
		if(ref.size() >= 3 && expect > 0 && expect < ref.size() && removed_before_query) interesting_query = true;
	}
	void all_queries(int U) {
		for(int lb = 0; lb < U; lb++) for(int ub = lb; ub < U; ub++) query(lb, ub, false);
		for(int p = 0; p < U; p++) query(p, p, true);
		query(-5, -1, false); query(U, U + 3, false); query(-3, U + 3, false);
	}
};

void run(Ctx &c, bool scripted) {
	auto &t = c.t;
	Node *pool = (Node *)c.raw(sizeof(Node) * POOL);
	for(int i = 0; i < POOL; i++) { new (&pool[i]) Node(); pool[i].serial = i; }
	Run r{c, c.make<ITree>(), {}};
	int next_free = 0; std::vector<Node *> free_list;
	bool small = scripted || t.pick(3) != 0;
	int U = scripted ? 4 : (small ? 8 : 100000);
	c.op("%s universe 0..%d", scripted ? "scripted" : "history", U - 1);
	auto ins = [&](int lo, int hi) {
		Node *n;
		if(!free_list.empty() && !scripted && t.pick(3) == 0) { n = free_list.back(); free_list.pop_back(); c.tag("reinsert-removed-node"); }
		else if(next_free < POOL) n = &pool[next_free++]; else return;
		n->lo = lo; n->hi = hi;
		c.op("insert [%d,%d]", lo, hi);
		if(lo == hi) c.tag("point-interval");
		for(Node *o : r.ref) { if(o->lo == lo && o->hi == hi) c.tag("duplicate-interval"); else if(o->lo <= lo && hi <= o->hi) c.tag("nested-interval"); else if(o->hi == lo || hi == o->lo) c.tag("touching-intervals"); }
		r.tree->insert(n);
		r.ref.push_back(n);
	};
	auto rem = [&](size_t idx) {
		Node *n = r.ref[idx];
		c.op("remove [%d,%d]", n->lo, n->hi);
		r.tree->remove(n);
		r.ref.erase(r.ref.begin() + idx);
		free_list.push_back(n);
		r.removed_before_query = true;
	};
	if(scripted) {
		unsigned n = t.pick(5);
		for(unsigned i = 0; i < n; i++) { int lo = t.pick(4); int hi = lo + t.pick(4 - lo); ins(lo, hi); r.all_queries(U); }
		if(!r.ref.empty() && !t.done()) { unsigned k = t.pick(r.ref.size() + 1); if(k < r.ref.size()) { rem(k); r.all_queries(U); } }
		c.tag("scripted");
	} else {
		unsigned nops = 1 + t.pick(40);
		if(t.pick(6) == 0) nops += t.pick(150);
		for(unsigned i = 0; i < nops && !t.done(); i++) {
			unsigned op = t.pick(10);
			if(op < 5 || r.ref.empty()) { int lo = t.pick(U); int hi = lo + (t.pick(3) == 0 ? 0 : t.pick(small ? U - lo : 1000)); ins(lo, hi); }
			else if(op < 8) rem(t.pick(r.ref.size()));
			else { int lb = t.pick(U), ub = lb + t.pick(small ? U - lb : 2000); bool single = t.pick(4) == 0; if(single) ub = lb; c.op("query(%d,%d)", lb, ub); r.query(lb, ub, single); continue; }
			if(small) r.all_queries(U);
			else { for(int q = 0; q < 12; q++) { Node *n = r.ref.empty() ? nullptr : r.ref[t.pick(r.ref.size())]; int lb = n ? n->lo - 1 + (int)t.pick(3) : (int)t.pick(U); if(lb < 0) lb = 0; int ub = lb + (int)t.pick(n ? n->hi - n->lo + 3 : 100); r.query(lb, ub, false); } }
		}
		c.tag(small ? "small-universe" : "large-universe");
	}
	c.check_san("C07");
	c.nontrivial = r.interesting_query;
}
}

void verif_case(Ctx &c) { if(c.t.pick(4) == 0) run(c, true); else run(c, false); }

// all sequences of <= 4 intervals over endpoints 0..3 (10 intervals) in every insertion order,
// every single removal (or none), all queries after every step
void verif_enum(Enum &e) {
	std::vector<std::pair<uint32_t, uint32_t>> iv;
	for(uint32_t lo = 0; lo < 4; lo++) for(uint32_t d = 0; lo + d < 4; d++) iv.push_back({lo, d});
	uint64_t count = 0;
	unsigned maxn = e.tier == "thorough" ? 4 : 3;
	std::vector<uint32_t> idx;
	std::function<bool(unsigned)> rec = [&](unsigned n) -> bool {
		if(idx.size() == n) {
			for(uint32_t k = 0; k <= n; k++) {
				std::vector<uint32_t> tape{0, n};
				for(uint32_t i : idx) { tape.push_back(iv[i].first); tape.push_back(iv[i].second); }
				tape.push_back(k);
				if(!e.run(tape)) return false;
				count++;
			}
			return true;
		}
		for(uint32_t i = 0; i < iv.size(); i++) { idx.push_back(i); bool ok = rec(n); idx.pop_back(); if(!ok) return false; }
		return true;
	};
	for(unsigned n = 1; n <= maxn; n++) if(!rec(n)) return;
	e.scope("all sequences of <= maxn intervals over endpoints 0..3 x every single removal (or none) x all queries after every step", count);
}
