// C08: frg::pairing_heap against a reference multiset.
// Preconditions: push only elements that are in no heap, pop only on a non-empty heap, remove only
// contained elements; the heap is drained before destruction (its destructor asserts emptiness).
#include <vector>
#include <string>
#include <pthread.h>
#include <cstring>
#include <algorithm>
#include <set>
#include <frg/pairing_heap.hpp>
#include <frg/intrusive.hpp>
#include "../engine/verif.hpp"

const char *verif_harness = "pheap_seq";
using namespace verif;

namespace {
// user-provided constructor that does not mention the hook, objects created by default-initialisation in 0xA5-filled storage
struct Elem {
	int prio, serial;
	bool in;       // harness bookkeeping: contained according to the reference
	frg::pairing_heap_hook<Elem> hook;
	Elem() { prio = 0; serial = 0; in = false; }
};
// compare(a, b): a is ordered before b (top() is an element ordered before no other)
// The comparator has state that it picks up when it is constructed (a direction, as a scheduler configures "highest first" or "lowest
// first" queues of one type). The heap constructs its comparator once and has to keep using that object: the harness sets the
// direction to +1 while a heap is constructed and to -1 afterwards, so a comparator that the library constructs later orders the other
// way round.
int g_dir = 1;
struct Less {
	int dir;
	Less() : dir(g_dir) {}
	explicit Less(int d) : dir(d) {}
	bool operator()(const Elem *a, const Elem *b) const { return dir >= 0 ? a->prio < b->prio : b->prio < a->prio; }
};
using Heap = frg::pairing_heap<Elem, frg::locate_member<Elem, frg::pairing_heap_hook<Elem>, &Elem::hook>, Less>;
constexpr int POOL = 160;

// The property speaks about top(), empty(), pop(), remove() and the hook of a removed element - not about how the heap links its
// elements. The link fields are therefore read only (a) to steer the generator towards roots, first children, middle and last
// siblings and leaves and (b) for the class histogram, and only while the implementation still has the three fields and they form
// the tree the generator expects. Nothing that is read from them is an oracle; an implementation that links differently (lazy
// insertion, a marked root, ...) is decided by the behavioural oracle alone and the position classes are waived (evidence note).
// All reads of link fields go through templates whose node type is a template parameter: the member is then looked up only when the
// helper is instantiated, `requires` can answer "no", and a field that still exists under its name but is no longer a plain pointer
// to an element (a tagged word, a wrapper) counts as absent.
template<typename E> constexpr bool has_links = requires(E *x) { static_cast<E *>(x->hook.child); static_cast<E *>(x->hook.backlink); static_cast<E *>(x->hook.sibling); };
template<typename E> E *link_child(E *x) { if constexpr(has_links<E>) return static_cast<E *>(x->hook.child); else return nullptr; }
template<typename E> E *link_back(E *x) { if constexpr(has_links<E>) return static_cast<E *>(x->hook.backlink); else return nullptr; }
template<typename E> E *link_sibling(E *x) { if constexpr(has_links<E>) return static_cast<E *>(x->hook.sibling); else return nullptr; }
// "reset": the hook compares equal, field by field, to one that was just constructed (only for the plain-pointer layout; otherwise the
// clause is decided by pushing the element again and by the hook's own destructor assertion)
template<typename E> bool hook_like_fresh(E *x) {
	if constexpr(has_links<E>) {
		alignas(E) unsigned char m[sizeof(E)]; memset(m, 0xA5, sizeof m); E *fresh = new (m) E;
		bool same = link_child(x) == link_child(fresh) && link_back(x) == link_back(fresh) && link_sibling(x) == link_sibling(fresh);
		fresh->~E();
		return same;
	} else return true;
}

struct Run {
	Ctx &c; Heap *heap; std::vector<Elem *> ref;
	std::vector<Elem *> order;     // traversal order of the hook links: root, then children depth first (when walkable)
	bool walkable = true;
	bool collect(Elem *n, Elem *expected_back) {
		if(!has_links<Elem>) return false;
		for(Elem *cur = n, *prev = expected_back; cur; prev = cur, cur = link_sibling(cur)) {
			if(order.size() >= ref.size()) return false;
			if(!cur->in) return false;
			if(link_back(cur) != prev) return false;
			order.push_back(cur);
			if(link_child(cur) && !collect(link_child(cur), cur)) return false;
		}
		return true;
	}
	// true when the links form one tree below top() that holds exactly the contained elements
	bool walk() {
		order.clear();
		if(ref.empty()) return true;
		bool ok = false;
		if(has_links<Elem>) { Elem *top = heap->top(); ok = top && !link_back(top) && !link_sibling(top) && collect(top, nullptr) && order.size() == ref.size(); }
		if(!ok) { order.clear(); if(walkable) { walkable = false; c.tag("hook-links-not-walkable"); } }
		return ok;
	}
	unsigned children_of(Elem *x) { unsigned n = 0; if(has_links<Elem> && walkable) for(Elem *k = link_child(x); k && n < ref.size(); k = link_sibling(k)) n++; return n; }
	void check(const char *after) {
		VCHECK(c, "C08", heap->empty() == ref.empty(), "after %s: empty() is %d with %zu contained elements", after, (int)heap->empty(), ref.size());
		if(ref.empty()) return;
		Elem *top = heap->top();
		VCHECK(c, "C08", top != nullptr && std::find(ref.begin(), ref.end(), top) != ref.end(), "after %s: top() is not a contained element", after);
		for(Elem *x : ref) VCHECK(c, "C08", !Less(1)(top, x), "after %s: top() #%d (prio %d) is ordered before the contained element #%d (prio %d)", after, top->serial, top->prio, x->serial, x->prio);
	}
	// "a removed element's hook is reset": it is in the state the hook's constructor leaves (compared field by field with a hook that was
	// just constructed; whether it can be pushed again is exercised by the re-push operations, and the hook's destructor - which asserts
	// that it is unlinked - runs for every element at the end of the case)
	void gone(Elem *x, const char *what) {
		VCHECK(c, "C08", hook_like_fresh(x), "%s: the hook of the removed element #%d is not reset", what, x->serial);
	}
	// exact containment, observed through the interface: everything comes out by pop() exactly once, in an order the comparator allows
	// (top() is ordered before no contained element at every step), and nothing else does
	void drain(const char *why, std::vector<Elem *> *out) {
		int lastp = 0; bool first = true;
		while(!ref.empty()) {
			check(why);
			Elem *top = heap->top();
			VCHECK(c, "C08", first || top->prio <= lastp, "%s: prio %d is popped after prio %d", why, top->prio, lastp);
			lastp = top->prio; first = false;
			heap->pop();
			auto it = std::find(ref.begin(), ref.end(), top);
			VCHECK(c, "C08", it != ref.end(), "%s: pop() with a top() that is not contained", why);
			ref.erase(it); top->in = false;
			gone(top, why);
			if(out) out->push_back(top);
		}
		VCHECK(c, "C08", heap->empty(), "%s: the heap is not empty after every contained element was popped", why);
	}
};

void run(Ctx &c, bool scripted) {
	auto &t = c.t;
	Elem *pool = (Elem *)c.raw(sizeof(Elem) * POOL);
	memset((void *)pool, 0xA5, sizeof(Elem) * POOL);
	for(int i = 0; i < POOL; i++) { new (&pool[i]) Elem; pool[i].serial = i; }
	g_dir = 1;
	Run r{c, c.make<Heap>(), {}, {}};
	g_dir = -1;
	int next_free = 0; std::vector<Elem *> free_list;
	bool nt = false;
	unsigned pmode = scripted ? 0 : t.pick(4);      // 0 tiny range (ties), 1 ascending, 2 descending, 3 random
	int counter = 0;
	auto push = [&](int prio) {
		Elem *e;
		if(!free_list.empty() && !scripted && t.pick(3) == 0) { e = free_list.back(); free_list.pop_back(); c.tag("repush-removed-element"); }
		else if(next_free < POOL) e = &pool[next_free++]; else return;
		e->prio = prio;
		c.op("push(#%d prio %d)", e->serial, prio);
		r.heap->push(e); r.ref.push_back(e); e->in = true;
		r.check("push");
	};
	auto pop = [&]() {
		Elem *top = r.heap->top();
		r.walk();
		unsigned nchild = r.children_of(top);
		c.op("pop() (#%d, %u children)", top->serial, nchild);
		if(nchild >= 3) { nt = true; c.tag(nchild % 2 ? "pop-odd-children" : "pop-even-children"); }
		if(!r.walkable && r.ref.size() >= 4) nt = true;
		r.heap->pop();
		auto it = std::find(r.ref.begin(), r.ref.end(), top);
		VCHECK(c, "C08", it != r.ref.end(), "pop() with a top() that is not contained");
		r.ref.erase(it); top->in = false;
		r.gone(top, "pop"); free_list.push_back(top);
		r.check("pop");
	};
	auto remove = [&](size_t k) {
		// k indexes the traversal order of the hook links, so root / first child / middle sibling /
		// last sibling / leaf are all explicit choices
		Elem *x;
		if(r.walk()) {
			x = r.order[k % r.order.size()];
			bool root = x == r.heap->top(), first_child = false, last = false, has_children = false;
			if(has_links<Elem>) { first_child = !root && link_child(link_back(x)) == x; last = !link_sibling(x); has_children = link_child(x); }
			const char *pos = root ? "root" : first_child ? (last ? "only-child" : "first-child") : (last ? "last-sibling" : "middle-sibling");
			c.op("remove(#%d: %s%s)", x->serial, pos, has_children ? " with children" : " leaf");
			c.tagf("remove-%s", pos); if(!has_children) c.tag("remove-leaf");
			if(!root && has_children) nt = true;
		} else {
			x = r.ref[k % r.ref.size()];
			c.op("remove(#%d%s)", x->serial, x == r.heap->top() ? ": top()" : "");
			if(x != r.heap->top() && r.ref.size() >= 4) nt = true;
		}
		r.heap->remove(x);
		r.ref.erase(std::find(r.ref.begin(), r.ref.end(), x)); x->in = false;
		r.gone(x, "remove"); free_list.push_back(x);
		r.check("remove");
	};
	auto gen_prio = [&]() -> int { switch(pmode) { case 0: return t.pick(3); case 1: return counter++; case 2: return 1000 - counter++; default: return t.pick(100000); } };
	if(scripted) {
		unsigned n = t.pick(8);
		c.op("scripted");
		for(unsigned i = 0; i < n; i++) push((int)t.pick(3));
		if(!r.ref.empty()) { unsigned k = t.pick(n + 1); if(k < r.ref.size()) remove(k); }
		c.tag("scripted");
	} else {
		c.op("priority mode %u", pmode); c.tagf("prio-mode-%u", pmode);
		unsigned nops = 1 + t.pick(50);
		if(t.pick(6) == 0) nops += t.pick(250);
		for(unsigned i = 0; i < nops && !t.done(); i++) {
			uint32_t raw = t.next(); unsigned op = raw % 10;
			if((raw / 10) % 16 == 15 && !r.ref.empty()) {
				// everything out and in again: exact containment in the middle of a history, and every element is pushed again
				c.op("drain %zu and push them again", r.ref.size()); c.tag("drain-and-refill");
				std::vector<Elem *> out; r.drain("drain in the middle of the history", &out);
				for(Elem *e : out) { r.heap->push(e); r.ref.push_back(e); e->in = true; r.check("push"); }
				continue;
			}
			if(op < 5 || r.ref.empty()) push(gen_prio());
			else if(op < 7) pop();
			else remove(t.pick(r.ref.size()));
		}
	}
	// drain: pops come out in non-increasing priority and are a permutation of the reference
	c.op("drain %zu", r.ref.size());
	{ std::vector<Elem *> out; r.drain("drain", &out); for(Elem *e : out) free_list.push_back(e); }
	c.destroy(r.heap);
	for(int i = 0; i < next_free; i++) pool[i].~Elem();     // the hook's destructor asserts that it is unlinked
	c.nontrivial = nt;
}
}

// ---- long histories on a small stack --------------------------------------------------------------
// frigg is kernel code: the heap is used on stacks of a few pages. A node with tens of thousands of children is reached by a
// plain history (monotone pushes); taking it out must not need stack space proportional to that number. The operations run
// in a thread with a 256 KiB stack; the oracle is the usual one (the drained order is the sorted order).
struct DeepArgs { unsigned n; unsigned shape; bool ok; std::string err; };
void *deep_thread(void *p) {
	DeepArgs &a = *(DeepArgs *)p;
	try {
	std::vector<Elem> elems(a.n);
	g_dir = 1; Heap heap; g_dir = -1;
	// shape 0: descending priorities (every push becomes a child of the root... or the new root), 1: ascending, 2: a few big fans
	for(unsigned i = 0; i < a.n; i++) { elems[i].serial = (int)i; elems[i].prio = a.shape == 0 ? (int)(a.n - i) : a.shape == 1 ? (int)i : (int)((i * 7919u) % 5u) * 100000 + (int)i; heap.push(&elems[i]); }
	if(a.shape == 2 && a.n > 10) { heap.remove(&elems[a.n / 2]); elems[a.n / 2].prio = -1; }      // remove a non-root element of a big heap
	// top() is an element that the comparator orders before no other: with Less = (a.prio < b.prio) the drain is non-increasing
	int last = 2147483647; unsigned drained = 0;
	while(!heap.empty()) {
		Elem *t = heap.top(); heap.pop();
		if(t->prio > last && a.ok) { a.ok = false; a.err = "the drain of a long history is not ordered: priority " + std::to_string(t->prio) + " after " + std::to_string(last); }
		last = t->prio; drained++;
	}
	unsigned expect = a.n - (a.shape == 2 && a.n > 10 ? 1 : 0);
	if(drained != expect) { a.ok = false; a.err = "the drain of a long history yields " + std::to_string(drained) + " of " + std::to_string(expect) + " elements"; }
	} catch(Panic &pn) { a.ok = false; a.err = "frg_panic in a long history: " + pn.msg; }
	return nullptr;
}
void run_deep(Ctx &c) {
	auto &t = c.t;
	DeepArgs a{20000 + t.pick(40000), t.pick(3), true, ""};
	c.op("long history: %u pushes (shape %u), drained on a 256 KiB stack", a.n, a.shape);
	c.tag("long-history-small-stack");
	pthread_attr_t attr; pthread_attr_init(&attr); pthread_attr_setstacksize(&attr, 256 * 1024);
	pthread_t th;
	if(pthread_create(&th, &attr, deep_thread, &a) != 0) { c.discard("no thread"); return; }
	pthread_join(th, nullptr);
	pthread_attr_destroy(&attr);
	VCHECK(c, "C08", a.ok, "%s", a.err.c_str());
	c.nontrivial = true;
}

void verif_case(Ctx &c) { unsigned k = c.t.pick(16); if(k == 0 || k == 4 || k == 8 || k == 12) run(c, true); else if(k == 15) run_deep(c); else run(c, false); }

// all push sequences over priorities {0,1,2} up to n = 6 (7 in thorough), followed by every single remove (or none) and a full drain
void verif_enum(Enum &e) {
	unsigned maxn = e.tier == "thorough" ? 7 : 6;
	uint64_t count = 0;
	for(uint32_t n = 0; n <= maxn; n++) {
		uint32_t total = 1; for(uint32_t i = 0; i < n; i++) total *= 3;
		for(uint32_t code = 0; code < total; code++) for(uint32_t k = 0; k <= n; k++) {
			std::vector<uint32_t> tape{0, n}; uint32_t x = code;
			for(uint32_t i = 0; i < n; i++) { tape.push_back(x % 3); x /= 3; }
			tape.push_back(k);
			if(!e.run(tape)) return;
			count++;
		}
	}
	e.scope("all push sequences over priorities {0,1,2} up to maxn x every single remove (or none) x full drain", count);
}
