// C10: lock-free readers of frg::rcu_radixtree while a single writer inserts and erases.
// std::atomic inside rcu_radixtree.hpp is interposed (same memory orders, every access a schedule
// point); the harness owns the schedule; TSan judges the happens-before relation induced by the
// memory orders actually used (DESIGN.md 1.3).
// Preconditions: one writer; insert only absent keys, erase only present keys; within the
// concurrent phase an erased key is not re-inserted (a slot may only be reused after a grace
// period - the harness joins the readers between phases); erased values are destroyed by the
// harness after the phase.
#include <atomic>
#include <new>
#include <map>
#include <vector>
#include <string>
#include <algorithm>
#include <cstring>
#include <utility>
#include <tuple>
#include <type_traits>
#include "../engine/verif_atomic.hpp"
#include <frg/macros.hpp>
#include <frg/allocation.hpp>
#include <frg/eternal.hpp>
#include <frg/tuple.hpp>
#include "../engine/verif_atomic_begin.hpp"
#include <frg/rcu_radixtree.hpp>
#include "../engine/verif_atomic_end.hpp"
#include "../engine/verif.hpp"

const char *verif_harness = "radix_conc";
using namespace verif;
void verif_case_reset() { vclock::reset(); }

namespace {
struct Val {
	uint64_t key, a, b; uint32_t chk;
	vclock::Stamp born;       // position of the constructing thread: a reader must have acquired it (vclock.hpp)
	Val(uint64_t k, uint64_t g) : key(k), a(g * 0x9E3779B97F4A7C15ull), b(~k), chk((uint32_t)(k ^ (g * 0x9E3779B97F4A7C15ull) ^ 0xC0DEC0DE)), born(vclock::now()) {}
	bool ok() const { return b == ~key && chk == (uint32_t)(key ^ a ^ 0xC0DEC0DE); }
	// The destructor changes the object: a value that is destroyed while a reader can still find it is seen as damaged
	// (the tree leaves the destruction of an erased value to its user, who has to wait for a grace period - the harness does).
	~Val() { chk = 0xDEADDEAD; b = 0; }
};
struct plain_alloc {     // only the writer allocates
	void *allocate(size_t n) { void *p = malloc(n); memset(p, 0xA5, n); return p; }
	void deallocate(void *p, size_t) { free(p); }
	void free(void *p) { ::free(p); }
};
using Tree = frg::rcu_radixtree<Val, plain_alloc>;

uint64_t nib_replace(uint64_t k, unsigned d, unsigned v) { unsigned sh = 60 - 4 * d; return (k & ~(uint64_t(0xF) << sh)) | (uint64_t(v & 0xF) << sh); }
unsigned nib_at(uint64_t k, unsigned d) { return (k >> (60 - 4 * d)) & 0xF; }

struct KeyState { bool inserted = false, erase_started = false, ever_erased = false; Val *addr = nullptr; };

struct Phase {
	std::vector<std::pair<int, int>> wops;        // (0 insert | 1 erase, key index)
	std::vector<std::vector<int>> finds;          // per reader: key indices
};
}

void verif_case(Ctx &c) {
	auto &t = c.t;
	Tree *tree = c.make<Tree>(plain_alloc{});
	// key universe
	static const uint64_t bases[] = {0, ~uint64_t(0), 0x8000000000000000ull, 0x0123456789abcdefull};
	std::vector<uint64_t> keys;
	unsigned nkeys = 2 + t.pick(6);
	keys.push_back(bases[t.pick(4)]);
	for(unsigned attempts = 0; keys.size() < nkeys && attempts < 40; attempts++) {
		uint64_t o = keys[t.pick(keys.size())]; uint64_t k;
		unsigned how = t.pick(3);
		if(how == 0) k = o + 1 + t.pick(15);                                          // same leaf (case 3) or neighbour leaf
		else { unsigned d = how == 1 ? t.pick(16) : t.pick(2); k = nib_replace(o, d, nib_at(o, d) + 1 + t.pick(15)); }   // split at nibble d (how == 2: at or next to the root)
		if(std::find(keys.begin(), keys.end(), k) == keys.end()) keys.push_back(k);
	}
	if(keys.size() < 2) keys.push_back(keys[0] + 1);
	std::vector<KeyState> ks(keys.size());
	uint64_t gen = 1;
	{ std::string s; for(auto k : keys) { char b[32]; snprintf(b, sizeof b, "%#llx ", (unsigned long long)k); s += b; } c.op("keys %s", s.c_str()); }
	// sequential setup
	unsigned nsetup = t.pick(keys.size() + 1);
	for(unsigned i = 0; i < nsetup; i++) { int ki = t.pick(keys.size()); if(ks[ki].inserted) continue; ks[ki].addr = tree->insert(keys[ki], keys[ki], gen++); ks[ki].inserted = true; c.op("setup insert k%d", ki); }
	// concurrent phases
	unsigned nphases = 1 + t.pick(2);
	bool nt = false; uint64_t total_switches = 0;
	std::vector<Val *> to_destroy;
	for(unsigned ph = 0; ph < nphases; ph++) {
		Phase P;
		unsigned nw = 1 + t.pick(4), nreaders = 1 + t.pick(3);
		std::vector<bool> present(keys.size()), erased_this_phase(keys.size(), false);
		for(size_t i = 0; i < keys.size(); i++) present[i] = ks[i].inserted && !ks[i].erase_started;
		for(unsigned i = 0; i < nw; i++) {
			int ki = t.pick(keys.size());
			if(present[ki]) { if(t.pick(3) == 0) { P.wops.push_back({1, ki}); present[ki] = false; erased_this_phase[ki] = true; } }
			else if(!erased_this_phase[ki] && !ks[ki].ever_erased) { P.wops.push_back({0, ki}); present[ki] = true; }
		}
		P.finds.resize(nreaders);
		for(unsigned r = 0; r < nreaders; r++) { unsigned nf = 1 + t.pick(3); for(unsigned i = 0; i < nf; i++) P.finds[r].push_back(t.pick(keys.size())); }
		{ std::string s = "phase: writer"; for(auto &w : P.wops) { s += w.first ? " erase k" : " insert k"; s += std::to_string(w.second); }
		  for(unsigned r = 0; r < nreaders; r++) { s += "; reader" + std::to_string(r) + " finds"; for(int k : P.finds[r]) s += " k" + std::to_string(k); } c.op("%s", s.c_str()); }
		std::string error; bool writer_in_insert = false; unsigned reader_steps_during_insert = 0;
		std::vector<std::function<void()>> bodies;
		bodies.push_back([&] {
			for(auto &w : P.wops) {
				int ki = w.second;
				if(w.first == 0) {
					{ dsched::Ignore ig; writer_in_insert = true; }
					Val *p = tree->insert(keys[ki], keys[ki], gen++);
					{ dsched::Ignore ig; writer_in_insert = false; ks[ki].addr = p; ks[ki].inserted = true; ks[ki].erase_started = false; }
				} else {
					{ dsched::Ignore ig; ks[ki].erase_started = true; ks[ki].ever_erased = true; to_destroy.push_back(ks[ki].addr); }
					tree->erase(keys[ki]);
					{ dsched::Ignore ig; ks[ki].inserted = false; }
				}
			}
		});
		for(unsigned r = 0; r < nreaders; r++) bodies.push_back([&, r] {
			for(int ki : P.finds[r]) {
				bool stable_before;
				{ dsched::Ignore ig; stable_before = ks[ki].inserted && !ks[ki].erase_started; if(writer_in_insert) reader_steps_during_insert++; }
				Val *p = tree->find(keys[ki]);
				// validate at once, with plain reads: they race with the writer's initialisation unless every publication is release/acquire
				bool bad_key = false, bad_body = false;
				bool no_hb = false;
				if(p) { bad_key = p->key != keys[ki]; bad_body = !p->ok(); no_hb = !vclock::hb(p->born); }
				{ dsched::Ignore ig;
				  if(writer_in_insert) reader_steps_during_insert++;
				  char buf[200];
				  if(p && bad_key && error.empty()) { snprintf(buf, sizeof buf, "find(k%d = %#llx) returned a value stored under key %#llx", ki, (unsigned long long)keys[ki], (unsigned long long)p->key); error = buf; }
				  if(p && no_hb && error.empty()) { snprintf(buf, sizeof buf, "find(k%d = %#llx) returned a value whose construction does not happen before the read: no acquire load of the reader read from a release sequence (C++20 [intro.races]/5) that follows the construction", ki, (unsigned long long)keys[ki]); error = buf; }
				  if(p && !bad_key && bad_body && error.empty()) { snprintf(buf, sizeof buf, "find(k%d = %#llx) returned a value that is not fully initialised", ki, (unsigned long long)keys[ki]); error = buf; }
				  bool still = ks[ki].inserted && !ks[ki].erase_started;
				  if(stable_before && still && !p && error.empty()) { snprintf(buf, sizeof buf, "find(k%d = %#llx) returned null although the key was present before the call and is not being erased", ki, (unsigned long long)keys[ki]); error = buf; }
				  if(p && !ks[ki].inserted && !ks[ki].erase_started && !ks[ki].ever_erased && !writer_in_insert && error.empty()) { snprintf(buf, sizeof buf, "find(k%d) returned a value for a key that was never inserted", ki); error = buf; }
				}
			}
		});
		unsigned smode = dsched::pick_mode(t); c.tagf("sched-mode-%u", smode & 0xff); if(smode & 0x100) c.tag("sched-mode-window-hunting");
		auto choose = dsched::make_chooser(t, smode);
		auto r = dsched::run(bodies, choose, 100000);
		total_switches += r.switches;
		VCHECK(c, "C10", r.verdict.empty(), "%s in a phase with lock-free readers", r.verdict.c_str());
		VCHECK(c, "C10", error.empty(), "%s", error.c_str());
		c.check_san("C10");
		if(reader_steps_during_insert) { nt = true; c.tag("reader-step-during-insert"); }
		// after the phase (readers joined = grace period): sequential consistency check, destroy erased values
		for(size_t i = 0; i < keys.size(); i++) {
			Val *p = tree->find(keys[i]);
			bool present_now = ks[i].inserted && !ks[i].erase_started;
			VCHECK(c, "C10", (p != nullptr) == present_now, "after the phase: find(k%zu) is %s but the key is %s", i, p ? "non-null" : "null", present_now ? "present" : "absent");
			if(p) VCHECK(c, "C10", p == ks[i].addr && p->key == keys[i] && p->ok(), "after the phase: key k%zu moved or is damaged", i);
		}
		for(Val *v : to_destroy) v->~Val();
		to_destroy.clear();
		for(auto &k : ks) if(k.erase_started) { k.erase_started = false; }
	}
	c.destroy(tree);
	c.nontrivial = nt;
	c.tagf("switches-%s", total_switches == 0 ? "0" : total_switches < 5 ? "1-4" : total_switches < 20 ? "5-19" : "20+");
}

// small-scope exhaustive: one writer insert (each of the three insertion cases, split at the root
// and below) x one find of each key, all interleavings at atomic-access granularity
void verif_enum(Enum &e) {
	uint64_t runs = 0;
	// tape: base, nkeys-2, key derivations..., nsetup, setup picks..., nphases-1, nw-1, nreaders-1, writer picks, reader picks, then schedule choices
	struct Shape { std::vector<uint32_t> prefix; const char *name; };
	std::vector<Shape> shapes = {
		{{0, 0, 0, 0, 0, /*nsetup*/ 0, /*phases*/ 0, /*nw*/ 0, /*readers*/ 0, /*writer: k*/ 0, /*r: nf*/ 0, /*find*/ 0}, "insert into an empty tree (case 1 at the root) | find"},
		{{0, 0, 0, 0, 0, 1, 0, 0, 0, 0, 1, 0, 0}, "same-leaf insert (case 3) | find of the old key"},
		{{0, 0, 0, 1, 2, 0, 1, 0, 0, 0, 0, 1, 0, 0}, "split at the root (case 2) | find of the old key"},
		{{0, 0, 0, 1, 2, 0, 1, 0, 0, 0, 0, 1, 0, 1}, "split at the root (case 2) | find of the new key"},
		{{1, 0, 0, 1, 2, 0, 0, 1, 9, 0, 2, 0, 1, 0, 0, 0, 2, 0, 0}, "split below the root (case 2) | find of the old key"},
		{{1, 0, 0, 1, 2, 0, 0, 1, 9, 0, 2, 0, 1, 0, 0, 0, 2, 0, 2}, "split below the root (case 2) | find of the new key"},
	};
	uint64_t cap = e.tier == "thorough" ? 80000 : 3000;
	for(auto &sh : shapes) {
		std::vector<uint32_t> choices; bool more = true; uint64_t n = 0;
		while(more && n < cap) {
			std::vector<uint32_t> tape = sh.prefix; tape.push_back(0 /* schedule mode: uniform */); tape.insert(tape.end(), choices.begin(), choices.end());
			if(!e.run(tape)) return;
			n++; runs++;
			auto sizes = dsched::S().trace_sizes;
			choices.resize(sizes.size(), 0);
			int i = (int)sizes.size() - 1;
			while(i >= 0 && choices[i] + 1 >= sizes[i]) i--;
			if(i < 0) more = false; else { choices[i]++; choices.resize(i + 1); }
		}
		std::string name = std::string(sh.name) + ": interleavings at atomic-access granularity" + (more ? " (bounded by the run cap, not complete)" : "");
		e.scope(name.c_str(), n);
	}
}
