// C17 (optional / expected / variant / tuple / manual_box are faithful value holders) and the
// holder part of C16.
//
// Preconditions respected by the generator (from the FRG_ASSERTs):
//   value()/operator*/-> only on engaged optionals; get<X>() only on the active alternative;
//   apply/const_apply only on non-empty variants; expected::value/unwrap only with a value,
//   error() only with an error; expected(E) only with an error code != E{};
//   manual_box: initialize/construct_with only when empty, destruct/get only when initialized.
// Moved-from holders keep their engaged/alternative state (as the std types do); the payload of
// a moved-from Tracked is the marker -1 for both the subject and the model.
#include <optional>
#include <variant>
#include <tuple>
#include <vector>
#include <array>
#include <tuple>
#include <set>
#include <string>
#include <memory>
#include <frg/optional.hpp>
#include <frg/variant.hpp>
#include <frg/expected.hpp>
#include <frg/tuple.hpp>
#include <frg/manual_box.hpp>
#include "../engine/verif.hpp"
#include "../engine/track.hpp"

const char *verif_harness = "holders_seq";
using namespace verif;

void verif_case_reset() { reg().reset(); }

namespace {

struct TB : Tracked { TB() = default; TB(int x) : Tracked(x) {} };   // a second, distinct alternative type
int payload(const TB &t) { return t.get(); }

template<typename T> struct Traits;
template<> struct Traits<int> { static constexpr const char *n = "int"; static constexpr bool copy = true, move = true, marks = false; };
template<> struct Traits<Tracked> { static constexpr const char *n = "Tracked"; static constexpr bool copy = true, move = true, marks = true; };
template<> struct Traits<TrackedMO> { static constexpr const char *n = "move-only"; static constexpr bool copy = false, move = true, marks = true; };
template<> struct Traits<TrackedCO> { static constexpr const char *n = "copy-only"; static constexpr bool copy = true, move = true, marks = false; };   // "move" copies

template<typename T> bool inside(const void *holder, size_t sz, const T *p) { return (const char *)p >= (const char *)holder && (const char *)(p + 1) <= (const char *)holder + sz; }

// ------------------------------------------------------------------------------------------
// optional
template<typename T>
struct OptRunner {
	using O = frg::optional<T>;
	using M = std::optional<int>;
	Ctx &c;
	static constexpr int S = 3;
	O *slot[S] = {nullptr, nullptr, nullptr};
	M ref[S];
	bool state_diff = false;

	void check() {
		for(int s = 0; s < S; s++) if(slot[s]) {
			O &o = *slot[s]; const O &co = o;
			VCHECK(c, "C17", (bool)o == ref[s].has_value() && o.has_value() == ref[s].has_value(), "optional<%s>[%d]: engaged is %d, reference %d", Traits<T>::n, s, (int)o.has_value(), (int)ref[s].has_value());
			if(ref[s]) {
				VCHECK(c, "C17", payload(*o) == *ref[s], "optional<%s>[%d]: holds %d, reference %d", Traits<T>::n, s, payload(*o), *ref[s]);
				VCHECK(c, "C17", &*o == &o.value() && &*o == o.operator->() && &*co == &*o && &co.value() == &*o, "optional[%d]: accessors return different objects", s);
				VCHECK(c, "C17", inside(&o, sizeof o, &*o), "optional[%d]: accessor returns an object outside the holder", s);
				if constexpr(std::is_same<T, int>::value) {
					int v = *ref[s];
					VCHECK(c, "C17", (o == v) && (v == o) && !(o != v) && !(v != o) && (o != v + 1) && (v + 1 != o) && !(o == v + 1), "optional<int>[%d]: ==/!= against its value", s);
					VCHECK(c, "C17", (o < v + 1) && !(o < v) && (v - 1 < o) && !(v < o), "optional<int>[%d]: < against values", s);
				}
			} else if constexpr(std::is_same<T, int>::value) {
				VCHECK(c, "C17", !(o == 5) && !(5 == o) && (o != 5) && (5 != o) && (o < 5) && !(5 < o), "empty optional<int>[%d]: comparisons", s);
			}
		}
		c.check_san("C17");
		VTRACK_POLL(c);
	}
	void kill(int d) { if(slot[d]) { c.destroy(slot[d]); slot[d] = nullptr; ref[d].reset(); } }
	void moved_from(int s) { if(ref[s] && Traits<T>::marks) ref[s] = -1; }

	// op codes: 0 copy-construct d from s, 1 move-construct, 2 copy-assign, 3 move-assign
	void pair_op(int op, int d, int s) {
		if((op == 0 || op == 1) && d == s) return;
		if(op == 0 || op == 1) kill(d);
		if(!slot[s]) return;
		if((op == 2 || op == 3) && !slot[d]) return;
		bool diff = op >= 2 ? ref[d].has_value() != ref[s].has_value() : ref[s].has_value();
		switch(op) {
		case 0: if constexpr(Traits<T>::copy) { c.op("o%d = copy-construct(o%d)", d, s); slot[d] = c.make<O>(*slot[s]); ref[d] = ref[s]; state_diff |= diff; } break;
		case 1: c.op("o%d = move-construct(o%d)", d, s); slot[d] = c.make<O>(std::move(*slot[s])); ref[d] = ref[s]; if(d != s) moved_from(s); state_diff |= diff; break;
		case 2: if constexpr(Traits<T>::copy) { c.op("o%d = o%d (copy)", d, s); *slot[d] = *slot[s]; ref[d] = ref[s]; state_diff |= diff; } break;
		default: c.op("o%d = move(o%d)", d, s); if(d != s) { *slot[d] = std::move(*slot[s]); ref[d] = ref[s]; moved_from(s); state_diff |= diff; } break;
		}
	}
	void make_state(int s, bool engaged, int v) {
		kill(s);
		if(engaged) { slot[s] = c.make<O>(T(v)); ref[s] = v; } else { slot[s] = c.make<O>(); ref[s].reset(); }
	}
	void history() {
		auto &t = c.t;
		c.op("optional<%s>", Traits<T>::n);
		int nextv = 1;
		unsigned nops = 1 + t.pick(24);
		for(unsigned i = 0; i < nops; i++) {
			int s = t.pick(S), d = t.pick(S);
			unsigned op = t.pick(15);
			switch(op) {
			case 0: kill(s); c.op("o%d = optional()", s); slot[s] = c.make<O>(); break;
			case 1: kill(s); c.op("o%d = optional(null_opt)", s); slot[s] = c.make<O>(frg::null_opt); break;
			case 2: if constexpr(Traits<T>::copy) { kill(s); int v = nextv++; const T x(v); c.op("o%d = optional(const& %d)", s, v); slot[s] = c.make<O>(x); ref[s] = v; } break;
			case 3: { kill(s); int v = nextv++; c.op("o%d = optional(&& %d)", s, v); slot[s] = c.make<O>(T(v)); ref[s] = v; break; }
			case 4: if constexpr(!std::is_same<T, int>::value) { kill(s); int v = nextv++; c.op("o%d = optional(converting %d)", s, v); slot[s] = c.make<O>(v); ref[s] = v; } break;
			case 5: case 6: case 7: case 8: pair_op(op - 5, d, s); break;
			case 9: if(slot[s]) { c.op("o%d = null_opt", s); if(ref[s]) state_diff = true; *slot[s] = frg::null_opt; ref[s].reset(); } break;
			case 10: if(slot[s]) { int v = nextv++; c.op("o%d.emplace(%d)", s, v); uint64_t before = reg().serial; if(ref[s]) c.tag("emplace-over-engaged"); slot[s]->emplace(v); ref[s] = v;
				VCHECK(c, "C17", birth_of(&**slot[s]) > before, "optional<%s>::emplace kept the old object (assigned to it) where std::optional::emplace destroys it and constructs a new one", Traits<T>::n); } break;
			case 11: if constexpr(!std::is_same<T, int>::value && Traits<T>::copy) { if(slot[s]) { bool eng = t.flip(); int v = nextv++; frg::optional<int> src; if(eng) src = frg::optional<int>(v);
					c.op("o%d = optional<int>(%s) const&", s, eng ? "engaged" : "empty"); if(ref[s].has_value() != eng) state_diff = true; *slot[s] = src; if(eng) ref[s] = v; else ref[s].reset(); } } break;
			case 12: if constexpr(!std::is_same<T, int>::value) { if(slot[s]) { bool eng = t.flip(); int v = nextv++; frg::optional<int> src; if(eng) src = frg::optional<int>(v);
					c.op("o%d = optional<int>(%s) &&", s, eng ? "engaged" : "empty"); if(ref[s].has_value() != eng) state_diff = true; *slot[s] = std::move(src); if(eng) ref[s] = v; else ref[s].reset(); } } break;
			case 13: if(slot[s]) { O &alias = *slot[s];       // self-assignment through an alias: nothing changes (move: the state stays)
				if constexpr(Traits<T>::copy) { if(t.flip()) { c.op("o%d = o%d (self copy)", s, s); *slot[s] = alias; c.tag("self-assign"); break; } }
				c.op("o%d = move(o%d) (self move)", s, s); *slot[s] = std::move(alias); c.tag("self-assign");
				VCHECK(c, "C17", slot[s]->has_value() == ref[s].has_value(), "self-move-assignment changed the engaged state");
				if(ref[s]) ref[s] = payload(**slot[s]); } break;
			default: if(slot[s] && ref[s]) { int v = nextv++; c.op("*o%d = %d", s, v); **slot[s] = T(v); ref[s] = v; } break;
			}
			check();
		}
		for(int s = 0; s < S; s++) kill(s);
		VTRACK_END(c);
		c.nontrivial = state_diff;
	}
	void pair_case(unsigned dst, unsigned src, unsigned op) {
		c.op("optional<%s> pair: dest %s, source %s", Traits<T>::n, dst ? "engaged" : "empty", src ? "engaged" : "empty");
		make_state(0, dst, 10); make_state(1, src, 20);
		check();
		pair_op(op, 0, 1);
		check();
		if(slot[0] && ref[0]) { c.op("reuse"); slot[0]->emplace(7); ref[0] = 7; check(); }
		for(int s = 0; s < S; s++) kill(s);
		VTRACK_END(c);
		c.tagf("optional-pair-d%u-s%u-op%u", dst, src, op);
		c.nontrivial = dst != src;
	}
};

// ------------------------------------------------------------------------------------------
// variant<int, Tracked, TB>; model: index (-1 invalid) + payload
struct VarRunner {
	using V = frg::variant<int, Tracked, TB>;
	Ctx &c;
	static constexpr int S = 3;
	V *slot[S] = {nullptr, nullptr, nullptr};
	int idx[S] = {-1, -1, -1}, val[S] = {0, 0, 0};
	bool state_diff = false;

	void check() {
		for(int s = 0; s < S; s++) if(slot[s]) {
			V &v = *slot[s]; const V &cv = v;
			VCHECK(c, "C17", (bool)v == (idx[s] >= 0), "variant[%d]: engaged is %d, model alternative %d", s, (int)(bool)v, idx[s]);
			VCHECK(c, "C17", v.tag() == (idx[s] < 0 ? V::invalid_tag : (size_t)idx[s]), "variant[%d]: tag() is %zu, model alternative %d", s, v.tag(), idx[s]);
			VCHECK(c, "C17", v.is<int>() == (idx[s] == 0) && v.is<Tracked>() == (idx[s] == 1) && v.is<TB>() == (idx[s] == 2), "variant[%d]: is<X>() disagrees with alternative %d", s, idx[s]);
			int got = 0; const void *addr = nullptr;
			if(idx[s] == 0) { got = v.get<int>(); addr = &v.get<int>(); VCHECK(c, "C17", &cv.get<int>() == addr, "const get"); }
			if(idx[s] == 1) { got = v.get<Tracked>().get(); addr = &v.get<Tracked>(); VCHECK(c, "C17", &cv.get<Tracked>() == addr, "const get"); }
			if(idx[s] == 2) { got = v.get<TB>().get(); addr = &v.get<TB>(); VCHECK(c, "C17", &cv.get<TB>() == addr, "const get"); }
			if(idx[s] >= 0) {
				VCHECK(c, "C17", got == val[s], "variant[%d]: alternative %d holds %d, model %d", s, idx[s], got, val[s]);
				VCHECK(c, "C17", (const char *)addr >= (const char *)&v && (const char *)addr < (const char *)(&v + 1), "variant[%d]: get returns an object outside the holder", s);
				int via = v.apply([](auto &x) -> int { return payload(x); });
				int cvia = cv.const_apply([](const auto &x) -> int { return payload(x); });
				VCHECK(c, "C17", via == val[s] && cvia == val[s], "variant[%d]: apply sees %d / const_apply %d, model %d", s, via, cvia, val[s]);
			}
		}
		c.check_san("C17");
		VTRACK_POLL(c);
	}
	void kill(int d) { if(slot[d]) { c.destroy(slot[d]); slot[d] = nullptr; idx[d] = -1; } }
	void moved_from(int s) { if(idx[s] >= 1) val[s] = -1; }
	void make_state(int s, int alt, int v) {
		kill(s);
		switch(alt) {
		case 0: slot[s] = c.make<V>(int(v)); break;
		case 1: slot[s] = c.make<V>(Tracked(v)); break;
		case 2: slot[s] = c.make<V>(TB(v)); break;
		default: slot[s] = c.make<V>(); break;
		}
		idx[s] = alt > 2 ? -1 : alt; val[s] = v;
	}
	// 0 copy-assign, 1 move-assign, 2 copy-construct, 3 move-construct
	void pair_op(int op, int d, int s) {
		if(!slot[s] || (op >= 2 && d == s)) return;
		if(op >= 2) kill(d); else if(!slot[d]) return;
		bool diff = op >= 2 ? idx[s] >= 0 : idx[d] != idx[s];
		switch(op) {
		case 0: c.op("v%d = v%d (copy)", d, s); *slot[d] = *slot[s]; idx[d] = idx[s]; val[d] = val[s]; break;
		case 1: c.op("v%d = move(v%d)", d, s); if(d == s) return; *slot[d] = std::move(*slot[s]); idx[d] = idx[s]; val[d] = val[s]; moved_from(s); break;
		case 2: c.op("v%d = copy-construct(v%d)", d, s); slot[d] = c.make<V>(*slot[s]); idx[d] = idx[s]; val[d] = val[s]; break;
		default: c.op("v%d = move-construct(v%d)", d, s); if(d == s) return; slot[d] = c.make<V>(std::move(*slot[s])); idx[d] = idx[s]; val[d] = val[s]; moved_from(s); break;
		}
		state_diff |= diff;
	}
	void history() {
		auto &t = c.t;
		c.op("variant<int,Tracked,TB>");
		int nextv = 1;
		unsigned nops = 1 + t.pick(24);
		for(unsigned i = 0; i < nops; i++) {
			int s = t.pick(S), d = t.pick(S);
			unsigned op = t.pick(11);
			switch(op) {
			case 0: case 1: { int alt = t.pick(4); int v = nextv++; c.op("v%d = variant(alt %d, %d)", s, alt, v); make_state(s, alt, v); break; }
			case 2: case 3: case 4: case 5: pair_op(op - 2, d, s); break;
			case 6: case 7: if(slot[s]) { int alt = t.pick(3); int v = nextv++; c.op("v%d.emplace<alt %d>(%d)", s, alt, v); if(idx[s] != alt) state_diff = true;
				uint64_t before = reg().serial; if(idx[s] == alt) c.tag("emplace-same-alternative");
				if(alt == 0) slot[s]->emplace<int>(v); else if(alt == 1) slot[s]->emplace<Tracked>(v); else slot[s]->emplace<TB>(v); idx[s] = alt; val[s] = v;
				if(alt >= 1) VCHECK(c, "C17", (alt == 1 ? birth_of(&slot[s]->get<Tracked>()) : birth_of(&slot[s]->get<TB>())) > before,
					"variant::emplace<alt %d> kept the old object (assigned to it) where std::variant::emplace destroys it and constructs a new one", alt); } break;
			case 8: if(slot[s]) { int alt = t.pick(3); int v = nextv++; c.op("v%d = alt %d value %d (converting assignment)", s, alt, v); if(idx[s] != alt) state_diff = true;
				if(alt == 0) *slot[s] = int(v); else if(alt == 1) *slot[s] = Tracked(v); else *slot[s] = TB(v); idx[s] = alt; val[s] = v; } break;
			case 9: if(slot[s]) { V &alias = *slot[s]; c.op("v%d = v%d (self copy)", s, s); *slot[s] = alias; c.tag("self-assign"); } break;
			default: if(slot[s] && idx[s] >= 0) { int v = nextv++; c.op("write %d through get/apply of v%d", v, s);
				if(idx[s] == 0) slot[s]->get<int>() = v; else if(idx[s] == 1) slot[s]->get<Tracked>() = Tracked(v); else slot[s]->apply([v](auto &x) -> int { x = std::remove_reference_t<decltype(x)>(v); return 0; }); val[s] = v; } break;
			}
			check();
		}
		for(int s = 0; s < S; s++) kill(s);
		VTRACK_END(c);
		c.nontrivial = state_diff;
	}
	void pair_case(unsigned dst, unsigned src, unsigned op) {
		c.op("variant pair: dest alt %u, source alt %u (3 = empty)", dst, src);
		make_state(0, dst, 10); make_state(1, src, 20);
		check();
		pair_op(op, 0, 1);
		check();
		if(slot[0]) { c.op("reuse"); slot[0]->emplace<Tracked>(7); idx[0] = 1; val[0] = 7; check(); }
		for(int s = 0; s < S; s++) kill(s);
		VTRACK_END(c);
		c.tagf("variant-pair-d%u-s%u-op%u", dst, src, op);
		c.nontrivial = dst != src;
	}
};

// ------------------------------------------------------------------------------------------
// expected<Err, T>; model: error code + payload
enum class Err { ok = 0, e1 = 1, e2 = 2 };
enum class Err2 { ok = 0, a = 10, b = 20 };
template<typename T>
struct ExpRunner {
	using X = frg::expected<Err, T>;
	Ctx &c;
	static constexpr int S = 3;
	X *slot[S] = {nullptr, nullptr, nullptr};
	Err err[S] = {Err::ok, Err::ok, Err::ok}; int val[S] = {0, 0, 0};
	bool state_diff = false;
	void check() {
		for(int s = 0; s < S; s++) if(slot[s]) {
			X &x = *slot[s]; const X &cx = x;
			VCHECK(c, "C17", (bool)x == (err[s] == Err::ok), "expected<%s>[%d]: has value is %d, model error %d", Traits<T>::n, s, (int)(bool)x, (int)err[s]);
			VCHECK(c, "C17", x.maybe_error() == err[s], "expected[%d]: maybe_error() is %d, model %d", s, (int)x.maybe_error(), (int)err[s]);
			if(err[s] == Err::ok) {
				VCHECK(c, "C17", payload(x.value()) == val[s], "expected<%s>[%d]: holds %d, model %d", Traits<T>::n, s, payload(x.value()), val[s]);
				VCHECK(c, "C17", &cx.value() == &x.value() && inside(&x, sizeof x, &x.value()), "expected[%d]: value() returns an object outside the holder", s);
			} else VCHECK(c, "C17", x.error() == err[s], "expected[%d]: error() is %d, model %d", s, (int)x.error(), (int)err[s]);
		}
		c.check_san("C17");
		VTRACK_POLL(c);
	}
	void kill(int d) { if(slot[d]) { c.destroy(slot[d]); slot[d] = nullptr; err[d] = Err::ok; } }
	void moved_from(int s) { if(err[s] == Err::ok && Traits<T>::marks) val[s] = -1; }
	void make_state(int s, bool has_value, int v) {
		kill(s);
		if(has_value) { slot[s] = c.make<X>(T(v)); err[s] = Err::ok; val[s] = v; } else { slot[s] = c.make<X>(v % 2 ? Err::e1 : Err::e2); err[s] = v % 2 ? Err::e1 : Err::e2; }
	}
	// 0 move-assign, 1 copy-assign, 2 copy-construct, 3 move-construct
	void pair_op(int op, int d, int s) {
		if(!slot[s] || d == s) return;
		if(op >= 2) kill(d); else if(!slot[d]) return;
		bool diff = op >= 2 ? true : (err[d] == Err::ok) != (err[s] == Err::ok);
		switch(op) {
		case 0: c.op("x%d = move(x%d)", d, s); *slot[d] = std::move(*slot[s]); err[d] = err[s]; val[d] = val[s]; moved_from(s); break;
		case 1: c.op("x%d = x%d (copy)", d, s); { X &r = (*slot[d] = *slot[s]); VCHECK(c, "C17", &r == slot[d], "copy assignment does not return *this"); } err[d] = err[s]; val[d] = val[s]; break;
		case 2: c.op("x%d = copy-construct(x%d)", d, s); slot[d] = c.make<X>(*slot[s]); err[d] = err[s]; val[d] = val[s]; break;
		default: c.op("x%d = move-construct(x%d)", d, s); slot[d] = c.make<X>(std::move(*slot[s])); err[d] = err[s]; val[d] = val[s]; moved_from(s); break;
		}
		state_diff |= diff;
	}
	void history() {
		auto &t = c.t;
		c.op("expected<Err,%s>", Traits<T>::n);
		int nextv = 1;
		unsigned nops = 1 + t.pick(20);
		for(unsigned i = 0; i < nops; i++) {
			int s = t.pick(S), d = t.pick(S);
			unsigned op = t.pick(13);
			switch(op) {
			case 0: case 1: { bool hv = t.flip(); int v = nextv++; c.op("x%d = expected(%s %d)", s, hv ? "value" : "error", v); make_state(s, hv, v); break; }
			case 2: kill(s); c.op("x%d = expected(success)", s); slot[s] = c.make<X>(frg::success); err[s] = Err::ok; val[s] = 0; break;
			case 3: kill(s); c.op("x%d = expected()", s); slot[s] = c.make<X>(); err[s] = Err::ok; val[s] = 0; break;
			case 4: case 5: case 6: case 7: pair_op(op - 4, d, s); break;
			case 8: if(slot[s] && err[s] == Err::ok) { c.op("x%d.unwrap()", s); T out = slot[s]->unwrap(); VCHECK(c, "C17", payload(out) == val[s], "unwrap() yields %d, model %d", payload(out), val[s]); moved_from(s); } break;
			case 9: if(slot[s]) { c.op("x%d.map(+100)", s); int before = val[s]; auto r = slot[s]->map([](T v) -> long { return payload(v) + 100L; });
				if(err[s] == Err::ok) { VCHECK(c, "C17", (bool)r && r.value() == before + 100L, "map() on a value yields %ld", r ? r.value() : -1L); moved_from(s); }
				else VCHECK(c, "C17", !r && r.error() == err[s], "map() on an error does not keep the error"); } break;
			case 10: if(slot[s]) { c.op("x%d.map_error()", s); int before = val[s]; auto r = slot[s]->map_error([](Err e) -> Err2 { return (Err2)((int)e * 10); });
				if(err[s] == Err::ok) { VCHECK(c, "C17", (bool)r && payload(r.value()) == before, "map_error() on a value does not keep the value"); moved_from(s); }
				else VCHECK(c, "C17", !r && (int)r.error() == (int)err[s] * 10, "map_error() yields error %d", r ? 0 : (int)r.error()); } break;
			case 11: if(slot[s]) { X &alias = *slot[s];      // self-assignment through an alias
				if(t.flip()) { c.op("x%d = x%d (self copy)", s, s); *slot[s] = alias; }
				else { c.op("x%d = move(x%d) (self move)", s, s); *slot[s] = std::move(alias); if(err[s] == Err::ok) val[s] = payload(slot[s]->value()); }
				c.tag("self-assign"); } break;
			default: if(slot[s] && err[s] == Err::ok) { int v = nextv++; c.op("x%d.value() = %d", s, v); slot[s]->value() = T(v); val[s] = v; } break;
			}
			check();
		}
		for(int s = 0; s < S; s++) kill(s);
		VTRACK_END(c);
		c.nontrivial = state_diff;
	}
	void pair_case(unsigned dst, unsigned src, unsigned op) {
		c.op("expected<Err,%s> pair: dest %s, source %s", Traits<T>::n, dst ? "value" : "error", src ? "value" : "error");
		make_state(0, dst, 11); make_state(1, src, 21);
		check();
		pair_op(op, 0, 1);
		check();
		for(int s = 0; s < S; s++) kill(s);
		VTRACK_END(c);
		c.tagf("expected-pair-d%u-s%u-op%u", dst, src, op);
		c.nontrivial = dst != src;
	}
};

// ------------------------------------------------------------------------------------------
void run_manual_box(Ctx &c) {
	auto &t = c.t;
	using B = frg::manual_box<Tracked>;
	B *b = c.make<B>();
	bool init = false; int val = 0; int cycles = 0;
	c.op("manual_box<Tracked>");
	unsigned nops = 1 + t.pick(16);
	int nextv = 1;
	for(unsigned i = 0; i < nops; i++) {
		switch(t.pick(4)) {
		case 0: if(!init) { int v = nextv++; c.op("initialize(%d)", v); b->initialize(v); init = true; val = v; } break;
		case 1: if(!init) { int v = nextv++; c.op("construct_with(%d)", v); b->construct_with([v] { return Tracked(v); }); init = true; val = v; } break;
		case 2: if(init) { c.op("destruct()"); b->destruct(); init = false; cycles++; } break;
		default: if(init) { int v = nextv++; c.op("*box = %d", v); **b = Tracked(v); val = v; } break;
		}
		VCHECK(c, "C17", b->valid() == init && (bool)*b == init, "manual_box: valid() is %d, model %d", (int)b->valid(), (int)init);
		if(init) {
			VCHECK(c, "C17", b->get()->get() == val && (*b)->get() == val && (**b).get() == val, "manual_box holds %d, model %d", b->get()->get(), val);
			VCHECK(c, "C17", inside(b, sizeof *b, b->get()), "manual_box::get() returns an object outside the box");
		}
		VTRACK_POLL(c);
	}
	if(init) b->destruct();
	c.destroy(b);
	VTRACK_END(c);
	c.nontrivial = cycles >= 1;
	c.tag("manual_box");
}

// ------------------------------------------------------------------------------------------
void run_tuple(Ctx &c) {
	auto &t = c.t;
	int a = (int)t.pick(1000), b = (int)t.pick(1000), d = (int)t.pick(1000), e = (int)t.pick(1000), f = (int)t.pick(1000), g = (int)t.pick(1000);
	unsigned which = t.pick(7);
	c.op("tuple battery %u with (%d,%d,%d,%d,%d,%d)", which, a, b, d, e, f, g);
	c.tagf("tuple-%u", which);
	using T3 = frg::tuple<int, Tracked, int>;
	switch(which) {
	case 0: {   // construction, get, copy, move, converting
		T3 *t1 = c.make<T3>(a, Tracked(b), d);
		VCHECK(c, "C17", t1->get<0>() == a && t1->get<1>().get() == b && t1->get<2>() == d, "tuple get<i> after construction");
		const T3 &ct = *t1;
		VCHECK(c, "C17", &ct.get<1>() == &t1->get<1>(), "const get returns another object");
		T3 *t2 = c.make<T3>(*t1);
		VCHECK(c, "C17", t2->get<0>() == a && t2->get<1>().get() == b && t2->get<2>() == d && t1->get<1>().get() == b, "tuple copy");
		T3 *t3 = c.make<T3>(std::move(*t1));
		VCHECK(c, "C17", t3->get<0>() == a && t3->get<1>().get() == b && t3->get<2>() == d, "tuple move");
		using TL = frg::tuple<long, Tracked, long>;
		TL *t4 = c.make<TL>(*t2);
		VCHECK(c, "C17", t4->get<0>() == a && t4->get<1>().get() == b && t4->get<2>() == d && t2->get<1>().get() == b, "converting tuple copy");
		TL *t5 = c.make<TL>(std::move(*t2));
		VCHECK(c, "C17", t5->get<0>() == a && t5->get<1>().get() == b && t5->get<2>() == d, "converting tuple move");
		auto mk = frg::make_tuple(a, Tracked(b), (long)d);
		VCHECK(c, "C17", mk.get<0>() == a && mk.get<1>().get() == b && mk.get<2>() == d, "make_tuple");
		t1->get<0>() = e; VCHECK(c, "C17", t1->get<0>() == e, "write through get");
		c.destroy(t5); c.destroy(t4); c.destroy(t3); c.destroy(t2); c.destroy(t1);
		break; }
	case 1: {   // apply passes the elements in order
		T3 *t1 = c.make<T3>(a, Tracked(b), d);
		std::vector<int> seen;
		int r = frg::apply([&](const int &x, const Tracked &y, const int &z) { seen = {x, y.get(), z}; return x + z; }, static_cast<const T3 &>(*t1));
		VCHECK(c, "C17", (seen == std::vector<int>{a, b, d}) && r == a + d, "apply(const&) passes (%d,%d,%d)", seen[0], seen[1], seen[2]);
		VCHECK(c, "C17", t1->get<1>().get() == b, "apply(const&) changed the tuple");
		int r2 = frg::apply([&](int x, Tracked y, int z) { seen = {x, y.get(), z}; return z - x; }, std::move(*t1));
		VCHECK(c, "C17", (seen == std::vector<int>{a, b, d}) && r2 == d - a, "apply(&&) passes (%d,%d,%d)", seen[0], seen[1], seen[2]);
		c.destroy(t1);
		break; }
	case 2: {   // tuple_cat of two, lvalues stay unchanged
		using TA = frg::tuple<int, Tracked>; using TBt = frg::tuple<Tracked, int, int>;
		TA *x = c.make<TA>(a, Tracked(b)); TBt *y = c.make<TBt>(Tracked(d), e, f);
		auto r = frg::tuple_cat(*x, *y);
		auto sr = std::tuple_cat(std::make_tuple(a, b), std::make_tuple(d, e, f));
		VCHECK(c, "C17", r.get<0>() == std::get<0>(sr) && r.get<1>().get() == std::get<1>(sr) && r.get<2>().get() == std::get<2>(sr) && r.get<3>() == std::get<3>(sr) && r.get<4>() == std::get<4>(sr),
				"tuple_cat(x, y) is (%d,%d,%d,%d,%d)", r.get<0>(), r.get<1>().v, r.get<2>().v, r.get<3>(), r.get<4>());
		VCHECK(c, "C17", x->get<0>() == a && x->get<1>().get() == b && y->get<0>().get() == d && y->get<1>() == e && y->get<2>() == f,
				"tuple_cat changed its lvalue arguments: x = (%d,%d), y = (%d,%d,%d)", x->get<0>(), x->get<1>().v, y->get<0>().v, y->get<1>(), y->get<2>());
		c.destroy(y); c.destroy(x);
		break; }
	case 3: {   // tuple_cat of three, mixed lvalue / rvalue / const
		using TA = frg::tuple<int, Tracked>; using TBt = frg::tuple<Tracked>; using TC = frg::tuple<int, int, Tracked>;
		TA *x = c.make<TA>(a, Tracked(b)); TBt *y = c.make<TBt>(Tracked(d)); TC *z = c.make<TC>(e, f, Tracked(g));
		const TA &cx = *x;
		auto r = frg::tuple_cat(cx, std::move(*y), *z);
		VCHECK(c, "C17", r.get<0>() == a && r.get<1>().get() == b && r.get<2>().get() == d && r.get<3>() == e && r.get<4>() == f && r.get<5>().get() == g,
				"tuple_cat(const x, move(y), z) is (%d,%d,%d,%d,%d,%d)", r.get<0>(), r.get<1>().v, r.get<2>().v, r.get<3>(), r.get<4>(), r.get<5>().v);
		VCHECK(c, "C17", x->get<1>().get() == b && z->get<2>().get() == g && z->get<0>() == e, "tuple_cat changed its lvalue arguments: x.1 = %d, z.2 = %d", x->get<1>().v, z->get<2>().v);
		auto r1 = frg::tuple_cat(*z);
		VCHECK(c, "C17", r1.get<0>() == e && r1.get<2>().get() == g && z->get<2>().get() == g, "tuple_cat(z) of one lvalue");
		auto r0 = frg::tuple_cat();
		(void)r0;
		c.destroy(z); c.destroy(y); c.destroy(x);
		break; }
	case 4: {   // tuples of references keep identity through copy and move
		int i1 = a; Tracked *tr = c.make<Tracked>(b);
		using TR = frg::tuple<int &, Tracked &>;
		TR r1(i1, *tr);
		VCHECK(c, "C17", &r1.get<0>() == &i1 && &r1.get<1>() == tr, "reference tuple does not refer to the originals");
		TR r2(r1);
		VCHECK(c, "C17", &r2.get<0>() == &i1 && &r2.get<1>() == tr, "copied reference tuple lost identity");
		TR r3(std::move(r1));
		VCHECK(c, "C17", &r3.get<0>() == &i1 && &r3.get<1>() == tr && tr->get() == b, "moved reference tuple lost identity or moved from the referent");
		r3.get<0>() = d; VCHECK(c, "C17", i1 == d, "write through a reference element");
		c.destroy(tr);
		break; }
	default: {  // tuple_cat over reference elements preserves identity
		int i1 = a, i2 = d; Tracked *tr = c.make<Tracked>(b);
		frg::tuple<int &, Tracked &> x(i1, *tr); frg::tuple<int &> y(i2);
		auto r = frg::tuple_cat(x, y);
		VCHECK(c, "C17", &r.get<0>() == &i1 && &r.get<1>() == tr && &r.get<2>() == &i2, "tuple_cat over reference elements lost identity");
		auto r2 = frg::tuple_cat(std::move(x), frg::tuple<int>(e));
		VCHECK(c, "C17", &r2.get<0>() == &i1 && &r2.get<1>() == tr && r2.get<2>() == e && tr->get() == b, "tuple_cat(move(ref tuple)) moved from the referent or lost identity");
		c.destroy(tr);
		break; }
	case 6: {   // converting construction (another type list) against std::tuple: destination values, what is left in the source, copies and moves per member
		c.tag("tuple-converting");
		auto probe = [&](auto make_src, auto convert_move, auto convert_copy, auto src_vals, auto dst_vals, const char *what, int expect_src_after_move[3]) {
			(void)expect_src_after_move;
			{ auto s1 = make_src(); uint64_t c0 = reg().copies, m0 = reg().moves; auto d1 = convert_move(s1); uint64_t copies = reg().copies - c0, moves = reg().moves - m0;
			  auto dv = dst_vals(d1); auto sv = src_vals(s1);
			  VCHECK(c, "C17", dv[0] == a && dv[1] == b && dv[2] == d, "%s: converting move construction yields (%d,%d,%d), expected (%d,%d,%d)", what, dv[0], dv[1], dv[2], a, b, d);
			  VCHECK(c, "C17", sv[1] == -1 && sv[2] == -1, "%s: after converting move construction the source members hold (%d,%d): they were copied, std::tuple moves every member (moved-from is -1)", what, sv[1], sv[2]);
			  VCHECK(c, "C17", copies == 0, "%s: converting move construction made %llu copies and %llu moves of the members, std::tuple makes no copy", what, (unsigned long long)copies, (unsigned long long)moves); }
			{ auto s2 = make_src(); uint64_t m0 = reg().moves; auto d2 = convert_copy(s2); uint64_t moves = reg().moves - m0;
			  auto dv = dst_vals(d2); auto sv = src_vals(s2);
			  VCHECK(c, "C17", dv[0] == a && dv[1] == b && dv[2] == d && sv[1] == b && sv[2] == d && moves == 0, "%s: converting copy construction yields (%d,%d,%d), leaves (%d,%d) in the source and moved %llu members", what, dv[0], dv[1], dv[2], sv[1], sv[2], (unsigned long long)moves); }
		};
		int dummy[3] = {0, -1, -1};
		using FS = frg::tuple<int, Tracked, Tracked>; using FD = frg::tuple<long, Tracked, Tracked>;
		using SS = std::tuple<int, Tracked, Tracked>; using SD = std::tuple<long, Tracked, Tracked>;
		probe([&] { return FS(a, Tracked(b), Tracked(d)); }, [](FS &s1) { return FD(std::move(s1)); }, [](FS &s1) { return FD(s1); },
			[](FS &x) { return std::array<int, 3>{x.get<0>(), x.get<1>().get(), x.get<2>().get()}; }, [](FD &x) { return std::array<int, 3>{(int)x.get<0>(), x.get<1>().get(), x.get<2>().get()}; }, "frg::tuple<int,T,T> -> tuple<long,T,T>", dummy);
		probe([&] { return SS(a, Tracked(b), Tracked(d)); }, [](SS &s1) { return SD(std::move(s1)); }, [](SS &s1) { return SD(s1); },
			[](SS &x) { return std::array<int, 3>{std::get<0>(x), std::get<1>(x).get(), std::get<2>(x).get()}; }, [](SD &x) { return std::array<int, 3>{(int)std::get<0>(x), std::get<1>(x).get(), std::get<2>(x).get()}; }, "std::tuple (the reference itself)", dummy);
		// a tuple of references converted to a tuple of values: the referents are copied, also from an rvalue tuple (std::forward<T&> yields an lvalue)
		{ Tracked *r1 = c.make<Tracked>(b), *r2 = c.make<Tracked>(d);
		  frg::tuple<int, Tracked &, Tracked &> refs(a, *r1, *r2);
		  frg::tuple<long, Tracked, Tracked> vals(std::move(refs));
		  VCHECK(c, "C17", vals.get<1>().get() == b && vals.get<2>().get() == d, "tuple<int,T&,T&> -> tuple<long,T,T>: values (%d,%d)", vals.get<1>().get(), vals.get<2>().get());
		  VCHECK(c, "C17", r1->get() == b && r2->get() == d, "tuple<int,T&,T&> && -> tuple<long,T,T> moved from the objects the references refer to (they now hold %d,%d); std::tuple copies them", r1->get(), r2->get());
		  // apply on an rvalue tuple of references passes the referents as lvalues (a by-value parameter copies them)
		  frg::tuple<Tracked &, Tracked &> refs2(*r1, *r2);
		  int sum = frg::apply([](Tracked x, Tracked y) { return x.get() + y.get(); }, std::move(refs2));
		  VCHECK(c, "C17", sum == b + d && r1->get() == b && r2->get() == d, "apply(f, tuple<T&,T&>&&) moved from the objects the references refer to (they now hold %d,%d; sum %d); std::apply passes them as lvalues", r1->get(), r2->get(), sum);
		  c.destroy(r2); c.destroy(r1); }
		break; }
	}
	c.check_san("C17");
	VTRACK_END(c);
	c.nontrivial = which >= 2 || which == 0;
}

// ------------------------------------------------------------------------------------------
// Value-holder batteries over element types the histories above do not use.
struct Big { uint64_t w[4]; };
struct Pod { int x; long y; };
// user-provided copy constructor, implicit (trivial) copy assignment and destructor
std::set<const void *> g_stamp_made;
struct Stamp { int v; Stamp(int x) : v(x) { g_stamp_made.insert(this); } Stamp(const Stamp &o) : v(o.v) { g_stamp_made.insert(this); } Stamp &operator=(const Stamp &) = default; };
static_assert(std::is_trivially_copy_assignable_v<Stamp> && std::is_trivially_destructible_v<Stamp> && !std::is_trivially_copy_constructible_v<Stamp>);      // defaulted constructor, members without initialisers
struct alignas(32) Wide { unsigned char b[32]; };
struct ChainNode;
using ChainLink = frg::expected<Err, ChainNode>;
struct ChainNode {
	Tracked t;
	std::unique_ptr<ChainLink> next;
	ChainNode(int v) : t(v) {}
	ChainNode(ChainNode &&) = default;
	ChainNode &operator=(ChainNode &&) = default;
};

void run_extra(Ctx &c) {
	auto &t = c.t;
	unsigned which = t.pick(9);
	int a = 1 + (int)t.pick(6), b = 1 + (int)t.pick(100), d = (int)t.pick(100);
	c.op("extra battery %u with (%d,%d,%d)", which, a, b, d);
	c.tagf("extra-%u", which);
	switch(which) {
	case 0: {   // manual_box::initialize(args...) constructs T(args...) like std::optional::emplace
		using VB = frg::manual_box<std::vector<int>>;
		VB *box = c.make<VB>();
		box->initialize(a, b);            // T(args...): a elements of value b (not the two-element list {a, b})
		std::optional<std::vector<int>> ref; ref.emplace(a, b);
		VCHECK(c, "C17", **box == *ref, "manual_box<vector<int>>::initialize(%d, %d) holds %zu elements (first %d), std::optional::emplace holds %zu", a, b, (*box)->size(), (*box)->empty() ? -1 : (**box)[0], ref->size());
		box->destruct();
		box->construct_with([&] { return std::vector<int>((size_t)a, d); });
		VCHECK(c, "C17", **box == std::vector<int>((size_t)a, d), "manual_box::construct_with holds another value");
		box->destruct();
		using PB = frg::manual_box<std::pair<int, long>>;
		PB *pb = c.make<PB>(); pb->initialize(a, (long)b);
		VCHECK(c, "C17", (*pb)->first == a && (*pb)->second == b, "manual_box<pair>::initialize");
		pb->destruct();
		break; }
	case 1: {   // alternatives whose sizes are not in ascending order; neighbours must stay intact
		using V2 = frg::variant<uint64_t, char, Big>;
		VCHECK(c, "C17", sizeof(V2) >= sizeof(Big) + sizeof(size_t) && alignof(V2) >= alignof(Big), "variant<uint64_t,char,Big> is %zu bytes (alignment %zu): too small for its largest alternative (%zu)", sizeof(V2), alignof(V2), sizeof(Big));
		V2 *arr = (V2 *)malloc(3 * sizeof(V2)); c.arena.push_back({arr, nullptr});      // exact size: ASan redzone behind the last one
		for(int i = 0; i < 3; i++) new (&arr[i]) V2();
		Big big{{(uint64_t)a, (uint64_t)b, (uint64_t)d, 0xFEEDFACEull}};
		arr[0] = uint64_t(a); arr[1] = char('x'); arr[2] = big;
		arr[1] = big; arr[0] = big;
		arr[1].get<Big>().w[3] = 77;
		VCHECK(c, "C17", arr[0].is<Big>() && arr[0].get<Big>().w[0] == (uint64_t)a && arr[0].get<Big>().w[3] == 0xFEEDFACEull, "variant[0] lost its Big value after its neighbour was assigned");
		VCHECK(c, "C17", arr[1].is<Big>() && arr[1].get<Big>().w[3] == 77 && arr[1].get<Big>().w[1] == (uint64_t)b, "variant[1] holds a damaged Big value");
		VCHECK(c, "C17", arr[2].is<Big>() && arr[2].get<Big>().w[2] == (uint64_t)d && arr[2].get<Big>().w[3] == 0xFEEDFACEull, "variant[2] lost its Big value");
		arr[0] = char('y');
		VCHECK(c, "C17", arr[0].is<char>() && arr[0].get<char>() == 'y' && arr[1].is<Big>() && arr[1].get<Big>().w[0] == (uint64_t)a, "assigning variant[0] changed variant[1]");
		for(int i = 0; i < 3; i++) arr[i].~V2();
		using V3 = frg::variant<double, char, Wide>;
		V3 *w = (V3 *)aligned_alloc(alignof(V3) < 32 ? 32 : alignof(V3), (sizeof(V3) + 31) / 32 * 32); c.arena.push_back({w, nullptr});
		new (w) V3(Wide{});
		VCHECK(c, "C17", alignof(V3) >= 32 && ((uintptr_t)&w->get<Wide>() % 32) == 0, "variant<double,char,Wide> returns its alignas(32) alternative at a misaligned address (alignof %zu)", alignof(V3));
		w->~V3();
		break; }
	case 2: {   // assignment from an object owned by the destination's current value
		ChainLink *cur = c.make<ChainLink>(ChainNode(a));
		cur->value().next = std::make_unique<ChainLink>(ChainNode(b));
		cur->value().next->value().next = std::make_unique<ChainLink>(ChainNode(d));
		*cur = std::move(*cur->value().next);
		VCHECK(c, "C17", (bool)*cur && cur->value().t.get() == b, "expected = move(nested expected owned by its own value): holds %d, expected %d", *cur ? cur->value().t.v : -1, b);
		VCHECK(c, "C17", cur->value().next && (bool)*cur->value().next && cur->value().next->value().t.get() == d, "the rest of the chain was lost");
		*cur = std::move(*cur->value().next);
		VCHECK(c, "C17", (bool)*cur && cur->value().t.get() == d && !cur->value().next, "second step of the chain");
		c.destroy(cur);
		break; }
	case 4: {   // head = std::move((*head)->next): the source optional is owned by the destination's current value
		struct LNode; using Link = frg::optional<std::unique_ptr<LNode>>;
		struct LNode { Tracked t; Link next; LNode(int v) : t(v) {} };
		Link *head = c.make<Link>();
		for(int i = 0; i < 3; i++) { auto n = std::make_unique<LNode>(a + i); n->next = std::move(*head); *head = std::move(n); }
		for(int i = 2; i >= 0; i--) {
			VCHECK(c, "C17", (bool)*head && (**head)->t.get() == a + i, "list head holds %d, expected %d", *head ? (**head)->t.v : -1, a + i);
			Link &src = (**head)->next;
			*head = std::move(src);
		}
		VCHECK(c, "C17", !*head, "the list is not empty after popping every node");
		c.destroy(head);
		break; }
	case 3: {   // optional / variant of a type that owns heap memory (std::string stands in for any resource owner)
		frg::optional<std::string> *o = c.make<frg::optional<std::string>>(std::string((size_t)a * 20, 'q'));
		frg::optional<std::string> *o2 = c.make<frg::optional<std::string>>(*o);
		*o = frg::null_opt; *o = *o2; *o2 = std::move(*o);
		VCHECK(c, "C17", *o2 && **o2 == std::string((size_t)a * 20, 'q'), "optional<string> round trip");
		using VS = frg::variant<int, std::string>;
		VS *v = c.make<VS>(std::string((size_t)b, 'z')); VS *v2 = c.make<VS>(*v);
		*v = 5; *v = *v2; *v2 = VS{};
		VCHECK(c, "C17", v->is<std::string>() && v->get<std::string>() == std::string((size_t)b, 'z') && !*v2, "variant<int,string> round trip");
		c.destroy(v2); c.destroy(v); c.destroy(o2); c.destroy(o);
		break; }
	case 5: {   // re-initialisation without arguments value-initialises (T()), whatever the storage held before
		int nz = a | 1; long nl = (long)b | 0x100000001l;
		c.tag("reinit-value-init");
		using BI = frg::manual_box<int>; BI *bi = c.make<BI>();
		std::optional<int> ri;
		bi->initialize(nz); ri.emplace(nz);
		VCHECK(c, "C17", **bi == *ri, "manual_box<int>::initialize(%d) holds %d", nz, **bi);
		bi->destruct(); bi->initialize(); ri.emplace();
		VCHECK(c, "C17", **bi == *ri, "manual_box<int>: initialize(%d); destruct(); initialize() holds %d, std::optional<int>::emplace() holds %d", nz, **bi, *ri);
		bi->destruct();
		using BP = frg::manual_box<Pod>; BP *bp = c.make<BP>();
		bp->initialize(Pod{nz, nl}); bp->destruct(); bp->initialize();
		VCHECK(c, "C17", (*bp)->x == 0 && (*bp)->y == 0, "manual_box<pod>: initialize({%d,%ld}); destruct(); initialize() holds {%d,%ld}, T() is {0,0}", nz, nl, (*bp)->x, (*bp)->y);
		bp->destruct();
		bp->construct_with([] { return Pod(); });
		VCHECK(c, "C17", (*bp)->x == 0 && (*bp)->y == 0, "manual_box<pod>::construct_with(Pod()) holds {%d,%ld}", (*bp)->x, (*bp)->y);
		bp->destruct();
		using OI = frg::optional<Pod>; OI *o = c.make<OI>(Pod{nz, nl});
		o->emplace();
		VCHECK(c, "C17", (*o)->x == 0 && (*o)->y == 0, "optional<pod>: emplace() over {%d,%ld} holds {%d,%ld}, T() is {0,0}", nz, nl, (*o)->x, (*o)->y);
		using VI = frg::variant<Pod, int>; VI *v = c.make<VI>(Pod{nz, nl});
		v->emplace<Pod>();
		VCHECK(c, "C17", v->get<Pod>().x == 0 && v->get<Pod>().y == 0, "variant<pod,int>: emplace<pod>() over {%d,%ld} holds {%d,%ld}", nz, nl, v->get<Pod>().x, v->get<Pod>().y);
		*v = nz; v->emplace<int>();
		VCHECK(c, "C17", v->get<int>() == 0, "variant<pod,int>: emplace<int>() over %d holds %d", nz, v->get<int>());
		c.destroy(v); c.destroy(o);
		break; }
	case 6: {   // optional<bool>: every way to copy/move an optional, from const and non-const lvalues, in every state, against std::optional
		c.tag("optional-bool-copies");
		for(int st = 0; st < 3; st++) {
			frg::optional<bool> src; std::optional<bool> rsrc;
			if(st == 1) { src = frg::optional<bool>(false); rsrc = false; } else if(st == 2) { src = frg::optional<bool>(true); rsrc = true; }
			const frg::optional<bool> csrc(src);
			auto same = [&](const frg::optional<bool> &o, const char *how) {
				VCHECK(c, "C17", o.has_value() == rsrc.has_value() && (!rsrc || *o == *rsrc), "optional<bool>: %s of %s yields %s, std::optional yields %s", how,
					st == 0 ? "an empty optional" : st == 1 ? "optional(false)" : "optional(true)", !o.has_value() ? "empty" : *o ? "true" : "false", !rsrc ? "empty" : *rsrc ? "true" : "false"); };
			same(csrc, "copy construction from a non-const lvalue (into a const object)");
			{ frg::optional<bool> x(src); same(x, "copy construction from a non-const lvalue"); }
			{ frg::optional<bool> x(csrc); same(x, "copy construction from a const lvalue"); }
			{ frg::optional<bool> x = src; same(x, "copy initialisation from a non-const lvalue"); }
			{ frg::optional<bool> t2(src); frg::optional<bool> x(std::move(t2)); same(x, "move construction"); }
			{ const frg::optional<bool> t3(csrc); frg::optional<bool> x(std::move(t3)); same(x, "construction from a const rvalue (std::move of a const optional)"); }
			{ const frg::optional<bool> t3(csrc); frg::optional<bool> x; x = std::move(t3); same(x, "assignment from a const rvalue"); }
			{ struct Holder { const frg::optional<bool> o; }; Holder h1{csrc}; Holder h2(std::move(h1)); same(h2.o, "the implicit move constructor of a struct with a const optional member"); }
			{ frg::optional<bool> x; x = src; same(x, "copy assignment from a non-const lvalue"); }
			{ frg::optional<bool> x(true); x = csrc; same(x, "copy assignment from a const lvalue over an engaged optional"); }
			{ frg::optional<bool> t2(src); frg::optional<bool> x; x = std::move(t2); same(x, "move assignment"); }
		}
		// the same for a type that is constructible from bool and from int
		for(int st = 0; st < 2; st++) {
			frg::optional<long> src; std::optional<long> rsrc; if(st) { src = frg::optional<long>(a | 2L); rsrc = a | 2L; }
			frg::optional<long> x(src), y = src; frg::optional<long> z; z = src;
			VCHECK(c, "C17", x.has_value() == rsrc.has_value() && y.has_value() == rsrc.has_value() && z.has_value() == rsrc.has_value() && (!rsrc || (*x == *rsrc && *y == *rsrc && *z == *rsrc)), "optional<long>: copies of a non-const lvalue differ from std::optional");
		}
		break; }
	case 7: {   // a type with a user-provided copy constructor but trivial assignment and destructor: wherever the standard type
	            // has to CONSTRUCT the value (destination empty / other alternative), a constructor must have run at that address
		c.tag("stamp-constructed");
		g_stamp_made.clear();
		{ frg::optional<Stamp> *src = c.make<frg::optional<Stamp>>(Stamp(a)); frg::optional<Stamp> *dst = c.make<frg::optional<Stamp>>();
		  *dst = *src;
		  VCHECK(c, "C17", dst->has_value() && (*dst)->v == a && g_stamp_made.count(&**dst), "optional<stamp>: copy assignment into an empty optional did not construct the value (no constructor ran at its address)");
		  frg::optional<Stamp> *dst2 = c.make<frg::optional<Stamp>>(); *dst2 = std::move(*src);
		  VCHECK(c, "C17", dst2->has_value() && (*dst2)->v == a && g_stamp_made.count(&**dst2), "optional<stamp>: move assignment into an empty optional did not construct the value");
		  frg::optional<Stamp> *cc = c.make<frg::optional<Stamp>>(*dst); VCHECK(c, "C17", cc->has_value() && g_stamp_made.count(&**cc), "optional<stamp>: copy construction did not construct the value");
		  c.destroy(cc); c.destroy(dst2); c.destroy(dst); c.destroy(src); }
		{ using VS = frg::variant<int, Stamp>; VS *src = c.make<VS>(Stamp(b)); VS *dst = c.make<VS>(5); VS *dst2 = c.make<VS>();
		  *dst = *src; *dst2 = *src;
		  VCHECK(c, "C17", dst->is<Stamp>() && dst->get<Stamp>().v == b && g_stamp_made.count(&dst->get<Stamp>()), "variant<int,stamp>: assignment over another alternative did not construct the value");
		  VCHECK(c, "C17", dst2->is<Stamp>() && g_stamp_made.count(&dst2->get<Stamp>()), "variant<int,stamp>: assignment into an empty variant did not construct the value");
		  c.destroy(dst2); c.destroy(dst); c.destroy(src); }
		{ enum class E2 { ok = 0, bad }; using XS = frg::expected<E2, Stamp>; XS *src = c.make<XS>(Stamp(d)); XS *dst = c.make<XS>(E2::bad);
		  *dst = *src;
		  VCHECK(c, "C17", (bool)*dst && dst->value().v == d && g_stamp_made.count(&dst->value()), "expected<E,stamp>: assignment over an error did not construct the value");
		  c.destroy(dst); c.destroy(src); }
		break; }
	case 8: {   // expected over error enums of every width (the "no error" value is E{}; every other value is an error, also one whose low 32 bits are 0),
	            // and optional `o = {}` for scalar and class element types (std::optional becomes empty)
		c.tag("expected-wide-error-enum");
		{ enum class E64 : uint64_t { ok = 0, low = 1, hi = uint64_t(1) << 32, top = uint64_t(1) << 63, mix = (uint64_t(1) << 32) | 1 };
		  for(E64 e : {E64::low, E64::hi, E64::top, E64::mix}) {
			frg::expected<E64, int> x(e);
			VCHECK(c, "C17", !x && x.error() == e, "expected<enum : uint64_t, int> constructed from the error %#llx reports %s", (unsigned long long)e, x ? "a value" : "another error");
			frg::expected<E64, int> y(7); y = x;
			VCHECK(c, "C17", !y && y.error() == e, "expected<enum : uint64_t, int>: assignment of the error %#llx over a value", (unsigned long long)e);
			frg::expected<E64, int> z(std::move(x)); VCHECK(c, "C17", !z && z.error() == e, "expected<enum : uint64_t, int>: move construction of the error %#llx", (unsigned long long)e);
		  }
		  frg::expected<E64, int> v(a); VCHECK(c, "C17", (bool)v && v.value() == a, "expected<enum : uint64_t, int> holding a value"); }
		{ enum class E8 : int8_t { ok = 0, neg = -1, min = -128 }; for(E8 e : {E8::neg, E8::min}) { frg::expected<E8, int> x(e); VCHECK(c, "C17", !x && x.error() == e, "expected<enum : int8_t, int> with a negative error code"); } }
		{ enum class E16 : uint16_t { ok = 0, big = 0x8000, max = 0xffff }; for(E16 e : {E16::big, E16::max}) { frg::expected<E16, int> x(e); VCHECK(c, "C17", !x && x.error() == e, "expected<enum : uint16_t, int> with a large error code"); } }
		c.tag("optional-assign-empty-braces");
		{ frg::optional<int> o(a); std::optional<int> r(a); o = {}; r = {}; VCHECK(c, "C17", o.has_value() == r.has_value(), "optional<int>: `o = {}` over an engaged optional leaves it %s, std::optional is %s", o.has_value() ? "engaged" : "empty", r.has_value() ? "engaged" : "empty");
		  o = {}; r = {}; VCHECK(c, "C17", o.has_value() == r.has_value(), "optional<int>: `o = {}` over an empty optional");
		  o = a; r = a; VCHECK(c, "C17", o.has_value() && *o == a, "optional<int>: value assignment after `= {}`"); }
		{ frg::optional<unsigned char> o((unsigned char)5); o = {}; VCHECK(c, "C17", !o.has_value(), "optional<unsigned char>: `o = {}` leaves it engaged"); }
		{ int t0 = 3; frg::optional<int *> o(&t0); o = {}; VCHECK(c, "C17", !o.has_value(), "optional<int *>: `o = {}` leaves it engaged"); }
		{ enum Col { red, green }; frg::optional<Col> o(green); o = {}; VCHECK(c, "C17", !o.has_value(), "optional<enum>: `o = {}` leaves it engaged"); }
		{ frg::optional<Tracked> *o = c.make<frg::optional<Tracked>>(Tracked(b)); *o = {}; VCHECK(c, "C17", !o->has_value(), "optional<Tracked>: `o = {}` leaves it engaged"); c.destroy(o); }
		{ frg::optional<std::string> o(std::string("text")); o = {}; VCHECK(c, "C17", !o.has_value(), "optional<string>: `o = {}` leaves it engaged"); }
		break; }
	}
	c.check_san("C17");
	VTRACK_END(c);
	c.nontrivial = true;
}

} // namespace

void verif_case(Ctx &c) {
	auto &t = c.t;
	unsigned mode = t.pick(3);
	if(mode == 0) {         // explicit pair case (also what the enumerator emits)
		unsigned holder = t.pick(3), ty = t.pick(4), dst = t.pick(4), src = t.pick(4), op = t.pick(4);
		if(holder == 0) { dst &= 1; src &= 1;
			switch(ty) { case 0: OptRunner<int>{c}.pair_case(dst, src, op); break; case 1: OptRunner<Tracked>{c}.pair_case(dst, src, op); break;
				case 2: OptRunner<TrackedMO>{c}.pair_case(dst, src, op | 1); break; default: OptRunner<TrackedCO>{c}.pair_case(dst, src, op); break; } }
		else if(holder == 1) VarRunner{c}.pair_case(dst, src, op);
		else { dst &= 1; src &= 1; if(ty & 1) ExpRunner<Tracked>{c}.pair_case(dst, src, op); else ExpRunner<int>{c}.pair_case(dst, src, op); }
		return;
	}
	unsigned kind = t.pick(11);
	c.tagf("kind-%u", kind);
	switch(kind) {
	case 10: run_extra(c); return;
	case 0: OptRunner<int>{c}.history(); break;
	case 1: OptRunner<Tracked>{c}.history(); break;
	case 2: OptRunner<TrackedMO>{c}.history(); break;
	case 3: OptRunner<TrackedCO>{c}.history(); break;
	case 4: case 5: VarRunner{c}.history(); break;
	case 6: ExpRunner<int>{c}.history(); break;
	case 7: ExpRunner<Tracked>{c}.history(); break;
	case 8: run_manual_box(c); break;
	default: run_tuple(c); break;
	}
}

// complete product destination state x source state x operation
void verif_enum(Enum &e) {
	uint64_t n = 0;
	for(uint32_t ty = 0; ty < 4; ty++) for(uint32_t d = 0; d < 2; d++) for(uint32_t s = 0; s < 2; s++) for(uint32_t op = 0; op < 4; op++) { if(!e.run({0, 0, ty, d, s, op})) return; n++; }
	e.scope("optional: element type x dest state x source state x {copy-construct, move-construct, copy-assign, move-assign}", n);
	n = 0;
	for(uint32_t d = 0; d < 4; d++) for(uint32_t s = 0; s < 4; s++) for(uint32_t op = 0; op < 4; op++) { if(!e.run({0, 1, 0, d, s, op})) return; n++; }
	e.scope("variant: dest alternative (3 + empty) x source alternative x {copy-assign, move-assign, copy-construct, move-construct}", n);
	n = 0;
	for(uint32_t ty = 0; ty < 2; ty++) for(uint32_t d = 0; d < 2; d++) for(uint32_t s = 0; s < 2; s++) for(uint32_t op = 0; op < 4; op++) { if(!e.run({0, 2, ty, d, s, op})) return; n++; }
	e.scope("expected: element type x dest state x source state x {move-assign, copy-assign, copy-construct, move-construct}", n);
	n = 0;
	for(uint32_t w = 0; w < 6; w++) { if(!e.run({1, 9, 1, 2, 3, 4, 5, 6, w})) return; n++; }
	e.scope("tuple batteries", n);
	n = 0;
	for(uint32_t w = 0; w < 5; w++) { if(!e.run({1, 10, w, 2, 7, 9})) return; n++; }
	e.scope("extra value-holder batteries", n);
}
