// C19: printf_format + do_printf_* against glibc vsnprintf, fmt() against an independent
// interpreter of the documented spec grammar, stack_buffer_logger chunking.
//
// Variadic arguments are a hand-made x86-64 SysV va_list whose overflow area is an exact-size
// heap array of 8-byte slots; the same list drives frigg and glibc (DESIGN.md C19).
//
// Preconditions respected by the generator (ISO C leaves the rest undefined):
//   '#' only with o x X; '0' not with c s p; ' (grouping) only with d i u; no length modifier on
//   c s p; %p without flags/width (frigg documents the plain 0x<hex> form); null is not passed
//   to %s; positional directives use literal width/precision (frigg does not parse *m$), use
//   every position 1..N, and positions are n <= 9.
//   fmt(): {:c} only with a char argument; negative values only with the decimal/default
//   conversion; implicit and explicit positions are not mixed; after a malformed spec only
//   explicit positions follow (whether a malformed spec consumes an implicit position is undocumented).
#include <cstdarg>
#include <climits>
#include <string>
#include <vector>
#include <algorithm>
#include <frg/printf.hpp>
#include <frg/logging.hpp>
#include "../engine/verif.hpp"

#ifndef VERIF_HARNESS_NAME
#define VERIF_HARNESS_NAME "printf_diff"
#endif
const char *verif_harness = VERIF_HARNESS_NAME;
using namespace verif;

namespace {

struct StrSink {
	std::string out;
	void append(char c) { out.push_back(c); }
	void append(const char *s) { out += s; }
	void append(const char *s, size_t n) { out.append(s, n); }
};

struct Agent {
	StrSink *sink; frg::va_struct *vsp;
	frg::expected<frg::format_error> operator()(char c) { sink->append(c); return frg::success; }
	frg::expected<frg::format_error> operator()(const char *c, size_t n) { sink->append(c, n); return frg::success; }
	frg::expected<frg::format_error> operator()(char t, frg::format_options opts, frg::printf_size_mod szmod) {
		switch(t) {
		case 'c': case 'p': case 's': frg::do_printf_chars(*sink, t, opts, szmod, vsp); break;
		case 'd': case 'i': case 'o': case 'x': case 'X': case 'u': frg::do_printf_ints(*sink, t, opts, szmod, vsp); break;
		default: return frg::format_error::agent_error;
		}
		return frg::success;
	}
};

// hand-made va_list: everything comes from the overflow area
// The x86-64 SysV va_list, written through its documented layout (g++ treats __va_list_tag as opaque, clang exposes the members)
struct SysVVaList { unsigned gp_offset, fp_offset; void *overflow_arg_area; void *reg_save_area; };
static_assert(sizeof(va_list) == sizeof(SysVVaList), "x86-64 SysV va_list expected");
inline void make_va_list(va_list ap, void *area) { SysVVaList raw{48, 304, area, nullptr}; memcpy((void *)&ap[0], &raw, sizeof raw); }
struct VaBuilder {
	std::vector<uint64_t> slots;
	void push_int(uint32_t v) { slots.push_back(0xA5A5A5A500000000ull | v); }    // the upper half of an int slot is garbage
	void push64(uint64_t v) { slots.push_back(v); }
	uint64_t *area = nullptr;
	void finish(Ctx &c) { area = (uint64_t *)malloc(slots.size() * 8); c.arena.push_back({area, nullptr}); if(!slots.empty()) memcpy(area, slots.data(), slots.size() * 8); }
	void init(va_list ap) {
		make_va_list(ap, area);
	}
};

const char *len_names[] = {"", "hh", "h", "l", "ll", "z", "t", "j"};
enum Len { L_none, L_hh, L_h, L_l, L_ll, L_z, L_t, L_j };

struct Directive {
	std::string flags; int width_kind = 0 /*0 none 1 literal 2 star*/, width = 0; int prec_kind = 0 /*0 none 1 '.' 2 literal 3 star*/, prec = 0;
	int len = L_none; char conv = 'd';
	bool is64 = false; uint64_t value = 0; std::string sval; bool unterminated = false;
	std::string text(int pos) const {
		std::string s = "%";
		if(pos > 0) s += std::to_string(pos) + "$";
		s += flags;
		if(width_kind == 1) s += std::to_string(width); else if(width_kind == 2) s += "*";
		if(prec_kind == 1) s += "."; else if(prec_kind == 2) s += "." + std::to_string(prec); else if(prec_kind == 3) s += ".*";
		s += len_names[len];
		s += conv;
		return s;
	}
	// size of the type pop_arg<T> is instantiated with for this directive
	int slot_bytes() const { if(conv == 's' || conv == 'p' || is64) return 8; if(conv == 'c' || len == L_hh) return 1; if(len == L_h) return 2; return 4; }
};

uint64_t boundary_value(Tape &t, bool is_signed) {
	static const int64_t b[] = {0, 1, -1, 2, 9, 10, 127, 128, -128, -129, 255, 256, 32767, 32768, -32768, -32769, 65535, 65536,
		INT_MAX, INT_MIN, (int64_t)INT_MAX + 1, (int64_t)INT_MIN - 1, UINT_MAX, (int64_t)UINT_MAX + 1, LLONG_MAX, LLONG_MIN, -2, 100, 1000, 123456789};
	unsigned how = t.pick(4);
	if(how == 0) return t.next64();
	if(how == 1) return (uint64_t)(int64_t)(int)t.pick(2000) - (is_signed ? 1000 : 0);
	return (uint64_t)b[t.pick(sizeof b / sizeof b[0])];
}

Directive gen_directive(Ctx &c, bool positional) {
	auto &t = c.t;
	Directive d;
	static const char convs[] = {'d', 'd', 'i', 'u', 'o', 'x', 'X', 'c', 's', 'p', 'x', 'd'};
	d.conv = convs[t.pick(12)];
	bool is_int = strchr("diuoxX", d.conv);
	bool is_signed = d.conv == 'd' || d.conv == 'i';
	if(d.conv != 'p') {
		std::string allowed = "-";
		if(is_int) allowed += "+ 0";
		if(d.conv == 'o' || d.conv == 'x' || d.conv == 'X') allowed += "#";
		if(d.conv == 'd' || d.conv == 'i' || d.conv == 'u') allowed += "'";
		unsigned nflags = t.pick(4);
		for(unsigned i = 0; i < nflags; i++) { char f = allowed[t.pick(allowed.size())]; if(d.flags.find(f) == std::string::npos) d.flags += f; }
		unsigned wk = t.pick(positional ? 2 : 3);
		d.width_kind = wk;
		if(wk == 1) d.width = 1 + (t.pick(4) ? t.pick(12) : t.pick(70));
		else if(wk == 2) d.width = (int)t.pick(141) - 70;
		if(d.conv != 'c') {
			unsigned pk = t.pick(positional ? 3 : 4);
			d.prec_kind = pk;
			if(pk == 2) d.prec = t.pick(4) ? t.pick(12) : t.pick(71);
			else if(pk == 3) d.prec = (int)t.pick(77) - 6;
		}
	}
	if(is_int) {
		d.len = t.pick(3) ? L_none : t.pick(8);
		d.is64 = d.len == L_l || d.len == L_ll || d.len == L_z || d.len == L_t || d.len == L_j;
		d.value = boundary_value(t, is_signed);
	} else if(d.conv == 'c') d.value = t.pick(4) == 0 ? t.pick(256) : 32 + t.pick(95);
	else if(d.conv == 's') {
		unsigned n = t.pick(3) == 0 ? t.pick(40) : t.pick(8);
		if(d.prec_kind >= 2 && t.flip()) n = std::max(0, d.prec - 1 + (int)t.pick(3));
		for(unsigned i = 0; i < n; i++) d.sval.push_back("abcxyz %"[t.pick(8)]);
		d.unterminated = t.pick(3) == 0;
	} else d.value = t.pick(3) ? t.next64() : t.pick(3);
	return d;
}

void run_printf(Ctx &c) {
	auto &t = c.t;
	bool positional = t.pick(4) == 0;
	unsigned n = 1 + t.pick(3);
	std::vector<Directive> ds;
	for(unsigned i = 0; i < n; i++) ds.push_back(gen_directive(c, positional));
	// argument order: directive i reads (its * width, its * precision, its value); positional: a permutation
	std::vector<int> pos(n);
	for(unsigned i = 0; i < n; i++) pos[i] = i + 1;
	if(positional) {
		for(unsigned i = n; i > 1; i--) std::swap(pos[i - 1], pos[t.pick(i)]);
		// known finding F-C19-positional-mixed: pop_arg stores an argument it has to skip with the type of
		// the directive that triggered the copy; a later directive that reads it with a wider type gets
		// garbage (uninitialised upper bytes). The class is excluded by construction while the finding is listed.
		bool unsafe = false;
		std::vector<bool> popped(n + 1, false);
		for(unsigned i = 0; i < n; i++) {
			for(int q = 1; q <= pos[i]; q++) if(!popped[q]) {
				popped[q] = true;
				// q's own directive
				for(unsigned j = 0; j < n; j++) if(pos[j] == q && ds[j].slot_bytes() > ds[i].slot_bytes()) unsafe = true;
			}
		}
		if(unsafe) {
			if(c.known_active("F-C19-positional-mixed")) {
				c.known("F-C19-positional-mixed", "C19", "positional directives of mixed width (e.g. \"%%2$d %%1$s\"): excluded by construction");
				for(unsigned i = 0; i < n; i++) pos[i] = i + 1;
			} else c.tag("positional-mixed-width");
		}
		c.tag("positional");
	}
	// build the format and the argument list (in position order)
	std::string fmt;
	static const char *lits[] = {"", " ", "a", "%%", "x=", "100%% ", "\t"};
	for(unsigned i = 0; i < n; i++) { fmt += lits[t.pick(7)]; fmt += ds[i].text(positional ? pos[i] : 0); }
	fmt += lits[t.pick(7)];
	VaBuilder vb;
	std::vector<const char *> keep;
	auto push_value = [&](const Directive &d) {
		if(d.conv == 's') {
			// ISO C: with a precision the argument need not be NUL-terminated as long as it has at least
			// `precision` characters. Such arguments sit in an exact-size block without terminator.
			bool bounded = (d.prec_kind == 2 || (d.prec_kind == 3 && d.prec >= 0) || d.prec_kind == 1) && d.sval.size() >= (size_t)(d.prec_kind == 1 ? 0 : d.prec);
			bool unterminated = bounded && d.unterminated;
			size_t n = unterminated ? (size_t)(d.prec_kind == 1 ? 0 : d.prec) : d.sval.size() + 1;
			char *s = (char *)malloc(n); c.arena.push_back({s, nullptr});
			if(n) memcpy(s, d.sval.c_str(), n);
			if(unterminated) c.tag("string-unterminated-with-precision");
			vb.push64((uint64_t)(uintptr_t)s); }
		else if(d.conv == 'p') vb.push64(d.value);
		else if(d.is64) vb.push64(d.value);
		else vb.push_int((uint32_t)d.value);
	};
	if(positional) { for(unsigned p = 1; p <= n; p++) for(unsigned i = 0; i < n; i++) if(pos[i] == (int)p) push_value(ds[i]); }
	else for(auto &d : ds) { if(d.width_kind == 2) vb.push_int((uint32_t)d.width); if(d.prec_kind == 3) vb.push_int((uint32_t)d.prec); push_value(d); }
	vb.finish(c);
	c.op("printf \"%s\"", fmt.c_str());
	{ std::string a; for(auto &d : ds) { char b[64]; if(d.conv == 's') a += "\"" + d.sval + "\" "; else { snprintf(b, sizeof b, "%#llx ", (unsigned long long)d.value); a += b; } if(d.width_kind == 2) a += "(w=" + std::to_string(d.width) + ") "; if(d.prec_kind == 3) a += "(p=" + std::to_string(d.prec) + ") "; } c.op("args %s", a.c_str()); }

	// reference: glibc; %p is rendered in frigg's documented form
	std::string expect;
	{
		std::string gfmt = fmt;
		// replace every %...p by a %#lx-equivalent rendering: simplest is to render piecewise
		bool has_p = false; for(auto &d : ds) if(d.conv == 'p') has_p = true;
		if(!has_p) {
			va_list ap; vb.init(ap);
			char buf[2048];
			int r = vsnprintf(buf, sizeof buf, gfmt.c_str(), ap);
			VCHECK(c, "*", r >= 0 && r < (int)sizeof buf, "harness: vsnprintf failed");
			expect.assign(buf, r);
		} else {
			// %p directives carry no flags/width: substitute them by 0x%lx (same slot), "0x0" for null
			std::string g2; size_t k = 0;
			for(unsigned i = 0; i < n; i++) {
				std::string tx = ds[i].text(positional ? pos[i] : 0);
				size_t at = gfmt.find(tx, k);
				g2 += gfmt.substr(k, at - k);
				if(ds[i].conv == 'p') { std::string r = tx; r.pop_back(); g2 += "0x" + r + "lx"; } else g2 += tx;
				k = at + tx.size();
			}
			g2 += gfmt.substr(k);
			va_list ap; vb.init(ap);
			char buf[2048];
			int r = vsnprintf(buf, sizeof buf, g2.c_str(), ap);
			VCHECK(c, "*", r >= 0 && r < (int)sizeof buf, "harness: vsnprintf failed");
			expect.assign(buf, r);
		}
	}
	StrSink sink;
	frg::va_struct vs;
	frg::arg *arg_list = (frg::arg *)malloc(sizeof(frg::arg) * 10);
	c.arena.push_back({arg_list, nullptr});
	memset(arg_list, 0xEE, sizeof(frg::arg) * 10);
	vs.arg_list = arg_list;
	vb.init(vs.args);
	// exact-size copy of the format string
	char *f = (char *)malloc(fmt.size() + 1); c.arena.push_back({f, nullptr}); memcpy(f, fmt.c_str(), fmt.size() + 1);
	auto res = frg::printf_format(Agent{&sink, &vs}, f, &vs);
	VCHECK(c, "C19", (bool)res, "printf_format reports an error for \"%s\"", fmt.c_str());
	c.check_san("C19");
	if(sink.out != expect) {
		std::string got = sink.out, exp = expect;
		for(auto *s : {&got, &exp}) for(auto &ch : *s) if(ch == 0) ch = '@';
		c.fail("C19", "printf(\"%s\") produces \"%s\", ISO C (glibc) produces \"%s\"", fmt.c_str(), got.c_str(), exp.c_str());
	}
	// classes
	bool nt = false;
	for(auto &d : ds) {
		if(d.flags.size() >= 2) { nt = true; std::string fl = d.flags; std::sort(fl.begin(), fl.end()); for(size_t i = 0; i < fl.size(); i++) for(size_t j = i + 1; j < fl.size(); j++) c.tagf("flags-%c%c", fl[i] == ' ' ? '_' : fl[i], fl[j] == ' ' ? '_' : fl[j]); }
		if(d.width_kind && d.prec_kind) nt = true;
		if(strchr("diuoxX", d.conv) && (d.value == 0 || (int64_t)d.value == INT_MIN || (int64_t)d.value == LLONG_MIN || d.value == UINT_MAX || (int64_t)d.value == -1)) nt = true;
		c.tagf("conv-%c", d.conv); if(d.len) c.tagf("len-%s", len_names[d.len]);
		if(d.width_kind == 2) c.tag(d.width < 0 ? "star-width-negative" : "star-width"); if(d.prec_kind == 3) c.tag(d.prec < 0 ? "star-precision-negative" : "star-precision");
		if(d.prec_kind && d.prec == 0 && d.value == 0 && strchr("diuoxX", d.conv)) c.tag("precision0-value0");
	}
	c.nontrivial = nt;
	c.tag("printf");
}

// ---- fmt() --------------------------------------------------------------------------------
struct FmtArgs { int i; unsigned u; long l; unsigned long long ull; char ch; const char *cs; std::string sv; };

std::string render_int(long long v, bool neg_allowed, int radix, bool caps, int width, bool zero) {
	char digits[80]; int k = 0;
	bool neg = v < 0 && neg_allowed;
	unsigned long long a = neg ? 0ull - (unsigned long long)v : (unsigned long long)v;
	do { int dgt = a % radix; digits[k++] = (char)(dgt < 10 ? '0' + dgt : (caps ? 'A' : 'a') + dgt - 10); a /= radix; } while(a);
	std::string body; for(int i = k - 1; i >= 0; i--) body.push_back(digits[i]);
	int total = (int)body.size() + (neg ? 1 : 0);
	std::string out;
	if(zero) { if(neg) out += '-'; if(total < width) out += std::string(width - total, '0'); out += body; }
	else { if(total < width) out += std::string(width - total, ' '); if(neg) out += '-'; out += body; }
	return out;
}

// every argument is a temporary of the helper's frame (computed, so that it cannot be folded into a constant)
__attribute__((noinline)) auto make_stored_fmt(frg::string_view f, const FmtArgs &a) {
	volatile int zero = 0;
	return frg::fmt(f, a.i + zero, a.u + (unsigned)zero, a.l + (long)zero, a.ull + (unsigned long long)zero, (char)(a.ch + (char)zero), (const char *)(a.cs + zero), frg::string_view(a.sv.data(), a.sv.size()));
}
__attribute__((noinline)) void scribble_stack() { volatile unsigned char buf[1024]; for(size_t i = 0; i < sizeof buf; i++) buf[i] = 0xA5; }

void run_fmt(Ctx &c) {
	auto &t = c.t;
	FmtArgs a;
	a.i = t.pick(3) ? (int)t.pick(100000) - 50000 : (int)boundary_value(t, true);
	a.u = t.pick(3) ? t.pick(100000) : (unsigned)boundary_value(t, false);
	a.l = t.pick(3) ? (long)t.pick(1000000) - 500000 : (long)boundary_value(t, true);
	a.ull = t.pick(3) ? t.pick(1000000) : boundary_value(t, false);
	a.ch = t.pick(5) == 0 ? (char)(128 + t.pick(128)) : (char)(33 + t.pick(90));     // also negative chars (non-ASCII bytes)
	static const char *strs[] = {"", "world", "a b", "{x}", "}"};
	a.cs = strs[t.pick(5)];
	a.sv = strs[t.pick(5)];
	bool explicit_pos = t.flip();
	unsigned nspec = t.pick(5);
	std::string fmt, expect;
	unsigned implicit = 0; bool after_malformed = false; bool nt = false;
	static const char *lits[] = {"", "x", "Hello ", "{{", "}", " = ", "{{}", "%d"};
	auto lit = [&]() { const char *l = lits[t.pick(8)]; fmt += l; for(const char *p = l; *p; p++) { if(p[0] == '{' && p[1] == '{') { expect += '{'; p++; } else expect += *p; } };
	for(unsigned s = 0; s < nspec; s++) {
		lit();
		unsigned kind = t.pick(10);
		if(kind == 0) {           // malformed spec: echoed unchanged
			static const char *bad[] = {"{:h}", "{:xq}", "{a}", "{:08xx}", "{1:2:3}", "{:-5}", "{ }", "{:x }"};
			const char *b = bad[t.pick(8)];
			fmt += b; expect += b; after_malformed = true; explicit_pos = true; c.tag("fmt-malformed"); nt = true;
			continue;
		}
		unsigned argi; std::string spec = "{";
		bool use_explicit = explicit_pos || after_malformed;
		if(use_explicit) { argi = t.pick(9); spec += std::to_string(argi); c.tag("fmt-explicit-position"); }
		else { argi = implicit++; }
		// option part
		bool zero = false; int width = 0; char conv = 0;
		unsigned opt = t.pick(4);
		if(opt) {
			spec += ":";
			if(t.flip()) { zero = true; spec += "0"; }
			if(t.flip()) { width = 1 + t.pick(24); spec += std::to_string(width); }
			static const char cv[] = {0, 'b', 'o', 'd', 'i', 'x', 'X', 'c'};
			conv = cv[t.pick(8)];
			// keep inside the documented domain
			bool is_char = argi == 4, is_str = argi == 5 || argi == 6;
			if(conv == 'c' && !is_char) conv = 'd';
			bool negative = (argi == 0 && a.i < 0) || (argi == 2 && a.l < 0) || (argi == 4 && a.ch < 0);
			if(negative && (conv == 'b' || conv == 'o' || conv == 'x' || conv == 'X')) conv = 'd';
			if(is_str && conv == 'c') conv = 0;
			if(conv) spec += conv;
			if(width && conv) nt = true;
		}
		spec += "}";
		fmt += spec;
		if(argi >= 7) { expect += spec; c.tag("fmt-position-out-of-range"); nt = true; continue; }
		int radix = conv == 'b' ? 2 : conv == 'o' ? 8 : (conv == 'x' || conv == 'X') ? 16 : 10;
		bool caps = conv == 'X';
		switch(argi) {
		case 0: expect += render_int(a.i, true, radix, caps, width, zero); break;
		case 1: expect += render_int(a.u, false, radix, caps, width, zero); break;
		case 2: expect += render_int(a.l, true, radix, caps, width, zero); break;
		case 3: expect += render_int((long long)a.ull, false, radix, caps, width, zero); break;
		case 4: if(conv == 'c') expect += a.ch; else { if(a.ch < 0) c.tag("fmt-negative-char"); expect += render_int(a.ch, true, radix, caps, width, zero); } break;
		case 5: expect += a.cs; break;
		default: expect += a.sv; break;
		}
		if(conv) c.tagf("fmt-conv-%c", conv);
		if(zero && width) c.tag("fmt-zero-fill");
	}
	lit();
	if(t.pick(8) == 0) { fmt += "{:08"; expect += "{:08"; c.tag("fmt-unclosed"); nt = true; }
	c.op("fmt \"%s\" args (%d, %u, %ld, %llu, '%c', \"%s\", sv\"%s\")", fmt.c_str(), a.i, a.u, a.l, a.ull, a.ch, a.cs, a.sv.c_str());
	char *f = (char *)malloc(fmt.size()); c.arena.push_back({f, nullptr}); memcpy(f, fmt.data(), fmt.size());    // exact size, no terminator
	StrSink sink;
	frg::string_view sv(a.sv.data(), a.sv.size());
	frg::format(frg::fmt(frg::string_view(f, fmt.size()), a.i, a.u, a.l, a.ull, a.ch, a.cs, sv), sink);
	c.check_san("C19");
	VCHECK(c, "C19", sink.out == expect, "fmt(\"%s\") renders \"%s\", the documented grammar gives \"%s\"", fmt.c_str(), sink.out.c_str(), expect.c_str());
	// More than ten arguments: two-digit positions select the right argument, positions past the end are echoed
	if(t.pick(4) == 0) {
		unsigned nsp = 1 + t.pick(4); std::string f12, e12;
		int vals[13]; for(int k = 0; k < 13; k++) vals[k] = 100 + k * 11 + (int)(a.i % 7);
		for(unsigned sidx = 0; sidx < nsp; sidx++) {
			unsigned pos = t.pick(16); bool lead = t.pick(4) == 0; bool hex = t.pick(3) == 0;
			std::string spec = "{" + std::string(lead ? "0" : "") + std::to_string(pos) + (hex ? ":x" : "") + "}";
			f12 += "<" + spec + ">";
			if(pos < 13) { char b[32]; snprintf(b, sizeof b, hex ? "%x" : "%d", vals[pos]); e12 += "<" + std::string(b) + ">"; } else e12 += "<" + spec + ">";
		}
		char *ff = (char *)malloc(f12.size()); c.arena.push_back({ff, nullptr}); memcpy(ff, f12.data(), f12.size());
		StrSink s12;
		frg::format(frg::fmt(frg::string_view(ff, f12.size()), vals[0], vals[1], vals[2], vals[3], vals[4], vals[5], vals[6], vals[7], vals[8], vals[9], vals[10], vals[11], vals[12]), s12);
		VCHECK(c, "C19", s12.out == e12, "fmt(\"%s\") with 13 arguments renders \"%s\", the documented grammar gives \"%s\"", f12.c_str(), s12.out.c_str(), e12.c_str());
		c.tag("fmt-13-arguments");
	}
	// A message object that is built from temporaries in one place and rendered later (stored, returned from a function):
	// it has to hold its rvalue arguments by value.
	{
		auto msg = make_stored_fmt(frg::string_view(f, fmt.size()), a);
		scribble_stack();
		StrSink later;
		frg::format(msg, later);
		c.check_san("C19");
		VCHECK(c, "C19", later.out == expect, "fmt(\"%s\") built from temporaries and rendered after the building expression ended renders \"%s\", expected \"%s\" (the object must own its rvalue arguments)", fmt.c_str(), later.out.c_str(), expect.c_str());
		c.tag("fmt-stored-object");
	}
	c.nontrivial = nt;
	c.tag("fmt");
}

// ---- stack_buffer_logger ------------------------------------------------------------------
struct ChunkLog { std::vector<std::string> chunks; int begins = 0, fin_true = 0, fin_false = 0; size_t limit = 0; std::string error; };
struct LogSink {
	ChunkLog *log;
	void begin() { log->begins++; }
	void operator()(const char *msg) { size_t n = strlen(msg); if(n >= log->limit && log->error.empty()) log->error = "a chunk of " + std::to_string(n) + " characters reached the sink (limit " + std::to_string(log->limit) + ")"; log->chunks.emplace_back(msg, n); }
	void finalize(bool done) { if(done) log->fin_true++; else log->fin_false++; }
};
template<size_t Limit>
void run_logger_n(Ctx &c) {
	auto &t = c.t;
	ChunkLog log; log.limit = Limit;
	std::string message;
	{
		frg::stack_buffer_logger<LogSink, Limit> logger{LogSink{&log}};
		auto item = logger();
		unsigned pieces = 1 + t.pick(4);
		// total length around k * (Limit - 1) +- 2
		size_t target = (1 + t.pick(4)) * (Limit - 1) + t.pick(5);
		if(target >= 2) target -= 2;
		for(unsigned p = 0; p < pieces; p++) {
			size_t remaining = target > message.size() ? target - message.size() : 0;
			size_t n = p + 1 == pieces ? remaining : (remaining ? t.pick(remaining + 1) : 0);
			unsigned how = t.pick(4);
			if(how == 0 && n >= 1) { char ch = (char)('a' + t.pick(26)); item << frg::char_fmt(ch); message += ch; }
			else if(how == 1) { int v = (int)t.pick(100000); item << v; message += std::to_string(v); }
			else { std::string s; for(size_t i = 0; i < n; i++) s.push_back((char)('A' + (message.size() + i) % 26)); char *cs = (char *)malloc(s.size() + 1); c.arena.push_back({cs, nullptr}); memcpy(cs, s.c_str(), s.size() + 1); item << (const char *)cs; message += s; }
		}
		item << frg::endlog;
	}
	c.op("logger<%zu> message of %zu characters in %zu chunks", Limit, message.size(), log.chunks.size());
	std::string cat; for(auto &s : log.chunks) cat += s;
	VCHECK(c, "C19", log.error.empty(), "stack_buffer_logger<%zu>: %s", Limit, log.error.c_str());
	VCHECK(c, "C19", cat == message, "stack_buffer_logger<%zu>: the sink received \"%s\", the message was \"%s\"", Limit, cat.c_str(), message.c_str());
	VCHECK(c, "C19", log.fin_true == 1 && log.fin_false == 0 && log.begins == 1, "stack_buffer_logger<%zu>: begin %d, finalize(true) %d, finalize(false) %d", Limit, log.begins, log.fin_true, log.fin_false);
	c.check_san("C19");
	c.nontrivial = log.chunks.size() >= 2;
	c.tagf("logger-%zu", Limit);
	if(message.size() % (Limit - 1) == 0 && !message.empty()) c.tag("logger-exact-multiple");
}
// Limit is a template parameter: besides the small buffers, sizes around the widths of narrower integer types (an offset kept in 8 or 16 bits)
void run_logger(Ctx &c) { unsigned k = c.t.pick(32); switch(k) { case 0: case 4: case 8: case 12: case 16: case 20: case 24: run_logger_n<2>(c); break; case 1: case 5: case 9: case 13: case 17: case 21: case 25: run_logger_n<3>(c); break;
	case 2: case 6: case 10: case 14: case 18: case 22: case 26: run_logger_n<8>(c); break; case 28: run_logger_n<256>(c); break; case 29: run_logger_n<257>(c); break; case 30: run_logger_n<65536>(c); break; case 31: run_logger_n<65537>(c); break;
	default: run_logger_n<128>(c); break; } }
} // namespace

void verif_case(Ctx &c) {
	unsigned k = c.t.pick(8);
	if(k < 5) run_printf(c); else if(k < 7) run_fmt(c); else run_logger(c);
}
