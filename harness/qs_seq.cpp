// C11 layer 1: frg::qs_domain / qs_agent at whole-operation granularity (agents are objects, so a
// single thread interleaves them arbitrarily), with an instrumented mutex.
// Preconditions respected by the generator (from the FRG_ASSERTs):
//   online() only when offline, offline()/quiescent_state() only when online,
//   await_barrier() only with a node that is not pending, by an online agent;
//   offline() of an agent that has deferred a grace period is a documented TODO assertion
//   (qs.hpp) - such cases are discarded and counted, not reported;
//   quiescent_barrier() only when the caller is the only online agent (otherwise it waits for
//   agents that cannot run in a sequential history).
// Bounded liveness: a fair tail of 8 rounds (every online agent reports a quiescent state, every
// agent calls run()); at least one agent is online during the tail.
#include <vector>
#include <set>
#include <frg/qs.hpp>
#include "../engine/verif.hpp"
#include "../engine/inst_mutex.hpp"

const char *verif_harness = "qs_seq";
using namespace verif;
// offline() of an agent that holds a deferred grace period is refused by a documented TODO assertion; it is recognised by the word
// "deferred" in the asserted expression, however the flag is spelled (_qs_deferred, deferred_bit, ...)
static bool mentions_deferred(const std::string &m) { std::string l; for(char ch : m) l += (char)tolower((unsigned char)ch); return l.find("deferred") != std::string::npos; }
void verif_case_reset() { mutex_log().reset(); }

namespace {
using Domain = frg::qs_domain<inst_mutex>;
using Agent = frg::qs_agent<inst_mutex>;

struct Barrier {
	frg::qs_node node;        // first member: the callback gets a pointer to it
	int id;
};
struct BarrierState { int id; int owner; std::set<int> waiting; bool fired = false; };

struct World {
	Ctx *c = nullptr;
	std::vector<BarrierState> barriers;
	int running_agent = -1;         // agent whose run() is executing
	std::string error;
};
World *W = nullptr;

void on_grace(frg::qs_node *n) {
	Barrier *b = reinterpret_cast<Barrier *>(n);
	int id = b->id;
	auto &bs = W->barriers[id];
	char buf[200];
	if(bs.fired) { snprintf(buf, sizeof buf, "the callback of barrier %d was invoked a second time", id); if(W->error.empty()) W->error = buf; return; }
	bs.fired = true;
	if(W->running_agent != bs.owner) { snprintf(buf, sizeof buf, "the callback of barrier %d (registered by agent %d) was invoked outside run() of that agent (running: %d)", id, bs.owner, W->running_agent); if(W->error.empty()) W->error = buf; }
	if(!bs.waiting.empty()) { snprintf(buf, sizeof buf, "the callback of barrier %d ran although agent %d, online at registration, has not been quiescent or offline since", id, *bs.waiting.begin()); if(W->error.empty()) W->error = buf; }
	// once the callback starts the library no longer touches the node: release it (ASan sees a later touch)
	memset((void *)b, 0xDD, sizeof *b);
	free(b);
}
}

void verif_case(Ctx &c) {
	auto &t = c.t;
	World w; w.c = &c; W = &w;
	unsigned nagents = 1 + t.pick(3);
	Domain *dom = c.make<Domain>();
	std::vector<Agent *> ag; std::vector<bool> online;
	c.op("%u agents", nagents);
	for(unsigned i = 0; i < nagents; i++) { ag.push_back(c.make<Agent>(dom)); online.push_back(true); }   // the constructor goes online
	bool nt = false; unsigned pending = 0;
	auto poll = [&](const char *what) {
		VMUTEX_POLL(c, "C11");
		VCHECK(c, "C11", mutex_log().held == 0, "%s: the domain mutex is still held when the operation returns", what);
		if(!w.error.empty()) c.fail("C11", "%s: %s", what, w.error.c_str());
		c.check_san("C11");
	};
	auto quiescent = [&](int a) { for(auto &b : w.barriers) if(!b.fired) b.waiting.erase(a); };
	auto pending_now = [&]() { unsigned n = 0; for(auto &b : w.barriers) if(!b.fired) n++; return n; };
	poll("construction");
	unsigned nops = 1 + t.pick(40);
	for(unsigned i = 0; i < nops && !t.done(); i++) {
		int a = t.pick(nagents);
		unsigned op = t.pick(10);
		try {
			switch(op) {
			case 0: if(!online[a]) { c.op("a%d.online()", a); if(pending_now()) { nt = true; c.tag("join-while-barrier-pending"); } ag[a]->online(); online[a] = true; } break;
			case 1: if(online[a]) { c.op("a%d.offline()", a); if(pending_now()) { nt = true; c.tag("leave-while-barrier-pending"); }
				try { ag[a]->offline(); } catch(Panic &p) { if(mentions_deferred(p.msg)) c.discard("offline() of an agent with a deferred grace period (documented TODO)"); throw; }
				online[a] = false; quiescent(a); } break;
			case 2: case 3: case 4: if(online[a]) { c.op("a%d.quiescent_state()", a); ag[a]->quiescent_state(); quiescent(a); } break;
			case 5: case 6: if(online[a] && w.barriers.size() < 12) {
				int id = (int)w.barriers.size();
				Barrier *b = (Barrier *)malloc(sizeof(Barrier)); new (b) Barrier(); b->id = id; b->node.on_grace_period = on_grace;
				BarrierState bs; bs.id = id; bs.owner = a; for(unsigned k = 0; k < nagents; k++) if(online[k]) bs.waiting.insert(k);
				if(pending_now() >= 1) { nt = true; c.tag("two-barriers-pending"); }
				w.barriers.push_back(bs);
				c.op("a%d.await_barrier(#%d)", a, id);
				ag[a]->await_barrier(&b->node);
				pending++;
				} break;
			case 7: case 8: { c.op("a%d.run()", a); w.running_agent = a; ag[a]->run(); w.running_agent = -1; break; }
			default: { unsigned on = 0; for(unsigned k = 0; k < nagents; k++) if(online[k]) on++;
				if(online[a] && on == 1) { c.op("a%d.quiescent_barrier()", a); ag[a]->quiescent_barrier(); quiescent(a); c.tag("quiescent_barrier"); } break; }
			}
		} catch(Panic &p) { c.fail("C11", "frg_panic on a valid history: %s", p.msg.c_str()); }
		poll("the operation");
	}
	// fair tail
	bool any = false; for(unsigned k = 0; k < nagents; k++) if(online[k]) any = true;
	if(!any) { c.op("a0.online() (tail)"); ag[0]->online(); online[0] = true; poll("online"); }
	c.op("fair tail");
	unsigned rounds_needed = 0;
	for(unsigned r = 0; r < 8; r++) {
		if(pending_now() == 0) break;
		rounds_needed = r + 1;
		for(unsigned k = 0; k < nagents; k++) if(online[k]) { ag[k]->quiescent_state(); quiescent(k); poll("tail quiescent_state"); }
		for(unsigned k = 0; k < nagents; k++) { w.running_agent = k; ag[k]->run(); w.running_agent = -1; poll("tail run"); }
	}
	for(auto &b : w.barriers) VCHECK(c, "C11", b.fired, "the callback of barrier %d (agent %d) has not run after 8 fair rounds in which every online agent reported a quiescent state and every agent called run(): the grace period is lost", b.id, b.owner);
	c.tagf("tail-rounds-%u", rounds_needed);
	if(w.barriers.size()) c.tag("has-barrier");
	c.nontrivial = nt && !w.barriers.empty();
	W = nullptr;
}
