// C12 (first half): ticket_spinlock and simple_spinlock under a harness-owned scheduler + TSan.
// spinlock.hpp uses the __atomic_* builtins and `pause`; function-like macros of the same names
// add the schedule points (a macro does not re-expand its own name) without touching frigg.
#include <atomic>
#include <vector>
#include <string>
#include <algorithm>
#include <cstring>
#include "../engine/dsched.hpp"
namespace hooks {
	inline thread_local uint32_t last_ticket = 0;
	// release clocks of the lock words (vclock.hpp), keyed by address; cleared for every case
	struct RelSlot { const void *key; vclock::Rel rel; };
	inline RelSlot g_rels[64];
	VCLOCK_NOTSAN inline void rels_clear() { for(auto &r : g_rels) { r.key = nullptr; r.rel = vclock::Rel(); } }
	VCLOCK_NOTSAN inline vclock::Rel &rel_of(const volatile void *p) { for(auto &r : g_rels) { if(r.key == (const void *)p) return r.rel; if(!r.key) { r.key = (const void *)p; return r.rel; } } return g_rels[63].rel; }
	template<typename P, typename V> inline auto fetch_add(P p, V v, int mo) { dsched::point(); rel_of(p).on_rmw((std::memory_order)mo); auto r = __atomic_fetch_add(p, v, mo); last_ticket = (uint32_t)r; return r; }
	template<typename P> inline auto load_n(P p, int mo) { dsched::point(); auto r = __atomic_load_n(p, mo); rel_of(p).on_load((std::memory_order)mo); return r; }
	template<typename P, typename V> inline void store_n(P p, V v, int mo) { dsched::point(); rel_of(p).on_store((std::memory_order)mo); __atomic_store_n(p, v, mo); }
	template<typename P, typename V> inline auto exchange_n(P p, V v, int mo) { dsched::point(); rel_of(p).on_rmw((std::memory_order)mo); return __atomic_exchange_n(p, v, mo); }
}
#define __atomic_fetch_add(p, v, mo) hooks::fetch_add(p, v, mo)
#define __atomic_load_n(p, mo) hooks::load_n(p, mo)
#define __atomic_store_n(p, v, mo) hooks::store_n(p, v, mo)
#define __atomic_exchange_n(p, v, mo) hooks::exchange_n(p, v, mo)
#define __builtin_ia32_pause() dsched::spin_yield()
#include <frg/spinlock.hpp>
#undef __atomic_fetch_add
#undef __atomic_load_n
#undef __atomic_store_n
#undef __atomic_exchange_n
#undef __builtin_ia32_pause
#include "../engine/verif.hpp"

const char *verif_harness = "spin_conc";
using namespace verif;
void verif_case_reset() { vclock::reset(); hooks::rels_clear(); }

namespace {
struct Shared {
	long data[4] = {0, 0, 0, 0};       // plain memory written inside the critical section (TSan's probe)
	vclock::Stamp last_section;         // position of the previous holder when it left the section (vclock.hpp)
	int inside = 0;                     // harness bookkeeping, only touched inside ignore regions
	std::vector<std::pair<uint32_t, int>> entries;   // (ticket, thread) in the order of entering the section
	std::string error;
};

template<typename Lock, bool Ticket>
void run_lock(Ctx &c, const std::vector<uint32_t> *explicit_choices) {
	auto &t = c.t;
	unsigned nthreads = 2 + t.pick(3);
	unsigned nacq[4]; unsigned total = 0;
	for(unsigned k = 0; k < nthreads; k++) { nacq[k] = 1 + t.pick(3); total += nacq[k]; }
	c.op("%s: %u threads x (%u,%u,%u,%u) acquisitions", Ticket ? "ticket_spinlock" : "simple_spinlock", nthreads, nacq[0], nthreads > 1 ? nacq[1] : 0, nthreads > 2 ? nacq[2] : 0, nthreads > 3 ? nacq[3] : 0);
	Lock *lk = c.make<Lock>();
	// Histories are not only the ones that start on a fresh lock: after 2^32 acquisitions the ticket
	// counters wrap. Such a history is reached by starting from the state it leaves behind (the two
	// 32-bit counters of the lock object), which is only done while the object has that layout.
	if constexpr(Ticket && sizeof(Lock) == 8) {
		static const uint32_t starts[] = {0, 0xFFFFFFFEu, 0xFFFFFFFFu, 0x7FFFFFFFu, 0xFFFFFFFDu};
		uint32_t st = starts[t.pick(5)];
		if(st) { uint32_t both[2] = {st, st}; memcpy((void *)lk, both, 8); c.tag("ticket-counters-near-wrap"); c.op("ticket counters start at %#x", st); }
	} else if(Ticket) (void)t.pick(5);
	Shared *sh = c.make<Shared>();
	std::vector<std::function<void()>> bodies;
	for(unsigned k = 0; k < nthreads; k++) bodies.push_back([=] {
		for(unsigned i = 0; i < nacq[k]; i++) {
			lk->lock();
			{ dsched::Ignore ig;
			  if(sh->inside++ && sh->error.empty()) sh->error = "two threads are inside the critical section at once";
			  sh->entries.push_back({hooks::last_ticket, (int)k}); }
			bool locked = lk->is_locked();
			if(!vclock::hb(sh->last_section)) { dsched::Ignore ig; if(sh->error.empty()) sh->error = "the previous critical section does not happen before this one: the acquiring loads read from no release sequence (C++20 [intro.races]/5) headed by the previous holder's unlock"; }
			for(int j = 0; j < 4; j++) sh->data[j] += 1;       // plain accesses: a race here means the lock does not order them
			dsched::point();
			for(int j = 0; j < 4; j++) sh->data[j] += 1;
			sh->last_section = vclock::now();
			{ dsched::Ignore ig; sh->inside--; (void)locked; }     // is_locked() is not part of C12 (and reads false across the ticket wrap-around): not asserted
			lk->unlock();
		}
	});
	size_t ci = 0;
	unsigned smode = explicit_choices ? 0 : t.pick(5);
	if(!explicit_choices) c.tagf("sched-mode-%u", smode);
	auto tape_choose = dsched::make_chooser(t, smode);
	auto choose = [&](size_t n) -> uint32_t {
		if(explicit_choices) return ci < explicit_choices->size() ? (*explicit_choices)[ci++] : 0;
		return tape_choose(n);
	};
	auto r = dsched::run(bodies, choose, 50000);
	VCHECK(c, "C12", r.verdict.empty(), "%s: %s after %llu steps: a waiter never gets the lock although the holder released it", Ticket ? "ticket_spinlock" : "simple_spinlock", r.verdict.c_str(), (unsigned long long)r.steps);
	VCHECK(c, "C12", sh->error.empty(), "%s", sh->error.c_str());
	VCHECK(c, "C12", sh->entries.size() == total && sh->data[0] == 2 * (long)total && sh->data[3] == 2 * (long)total, "%zu of %u critical sections ran, data = %ld", sh->entries.size(), total, sh->data[0]);
	if(Ticket) for(size_t i = 1; i < sh->entries.size(); i++)
		VCHECK(c, "C12", sh->entries[i].first == sh->entries[i - 1].first + 1, "ticket order violated: ticket %u (thread %d) entered the section right after ticket %u (thread %d)",
				sh->entries[i].first, sh->entries[i].second, sh->entries[i - 1].first, sh->entries[i - 1].second);
	c.check_san("C12");
	c.tagf("switches-%s", r.switches == 0 ? "0" : r.switches < 5 ? "1-4" : r.switches < 20 ? "5-19" : "20+");
	c.tag(Ticket ? "ticket" : "simple");
	c.nontrivial = r.switches >= 2;
	stats().notes["schedule points per case (last)"] = std::to_string(r.steps);
}
}

void verif_case(Ctx &c) {
	unsigned k = c.t.pick(2);
	if(k == 0) run_lock<frg::ticket_spinlock, true>(c, nullptr); else run_lock<frg::simple_spinlock, false>(c, nullptr);
}

// all interleavings (at atomic-access granularity) of 2 threads x 2 acquisitions and 3 threads x 1,
// by depth-first search over the scheduler's choice points with re-execution
void verif_enum(Enum &e) {
	for(uint32_t kind = 0; kind < 2; kind++) for(uint32_t shape = 0; shape < 2; shape++) for(uint32_t start = 0; start < 2; start++) {
		// tape prefix: kind, nthreads-2, then acquisitions-1 per thread, the start value of the ticket counters (0: fresh lock, 1: two tickets before the wrap), schedule mode 0 (uniform)
		std::vector<uint32_t> prefix = shape == 0 ? std::vector<uint32_t>{kind, 0, 1, 1, start, 0} : std::vector<uint32_t>{kind, 1, 0, 0, 0, start, 0};
		std::vector<uint32_t> choices; uint64_t runs = 0; bool more = true;
		uint64_t cap = e.tier == "thorough" ? 30000 : 2000;
		while(more && runs < cap) {
			std::vector<uint32_t> tape = prefix; tape.insert(tape.end(), choices.begin(), choices.end());
			if(!e.run(tape)) return;
			runs++;
			// next schedule in DFS order: bump the deepest choice that has an alternative left
			auto sizes = dsched::S().trace_sizes;
			choices.resize(sizes.size(), 0);
			int i = (int)sizes.size() - 1;
			while(i >= 0 && choices[i] + 1 >= sizes[i]) i--;
			if(i < 0) more = false; else { choices[i]++; choices.resize(i + 1); }
		}
		char name[220]; snprintf(name, sizeof name, "%s%s, %s: interleavings at atomic-access granularity%s", kind ? "simple_spinlock" : "ticket_spinlock", start ? " (ticket counters start at 0xfffffffe)" : "", shape == 0 ? "2 threads x 2 acquisitions" : "3 threads x 1 acquisition", more ? " (bounded by the run cap, not complete)" : "");
		e.scope(name, runs);
	}
}
