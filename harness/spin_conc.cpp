// C12 (first half): ticket_spinlock and simple_spinlock under a harness-owned scheduler + TSan.
// spinlock.hpp uses the __atomic_* builtins and `pause`; function-like macros of the same names
// add the schedule points (a macro does not re-expand its own name) without touching frigg.
#include <atomic>
#include <vector>
#include <string>
#include <algorithm>
#include <cstring>
#include "../engine/dsched.hpp"
namespace hooks {
	// release clocks of the lock words (vclock.hpp), keyed by address; cleared for every case
	struct RelSlot { const void *key; vclock::Rel rel; };
	inline RelSlot g_rels[64];
	VCLOCK_NOTSAN inline void rels_clear() { for(auto &r : g_rels) { r.key = nullptr; r.rel = vclock::Rel(); } }
	VCLOCK_NOTSAN inline vclock::Rel &rel_of(const volatile void *p) { for(auto &r : g_rels) { if(r.key == (const void *)p) return r.rel; if(!r.key) { r.key = (const void *)p; return r.rel; } } return g_rels[63].rel; }
	// The order in which tickets are drawn is the order of the first successful read-modify-write that each lock() call performs on the
	// lock (whatever builtin the implementation uses for it, whatever the width or encoding of the ticket): draw_seq numbers them.
	inline uint64_t g_rmw_seq = 0;
	inline thread_local uint64_t draw_seq = 0;
	VCLOCK_NOTSAN inline void note_rmw() { uint64_t n = ++g_rmw_seq; if(!draw_seq) draw_seq = n; }
#define VERIF_RMW(name) template<typename P, typename V> inline auto name(P p, V v, int mo) { dsched::point(); rel_of(p).on_rmw((std::memory_order)mo); vclock::mirror_write(p, (std::memory_order)mo); auto r = __atomic_##name(p, v, mo); vclock::mirror_read(p, (std::memory_order)mo); note_rmw(); return r; }
	VERIF_RMW(fetch_add) VERIF_RMW(fetch_sub) VERIF_RMW(fetch_or) VERIF_RMW(fetch_and) VERIF_RMW(fetch_xor) VERIF_RMW(fetch_nand)
	VERIF_RMW(add_fetch) VERIF_RMW(sub_fetch) VERIF_RMW(or_fetch) VERIF_RMW(and_fetch) VERIF_RMW(xor_fetch) VERIF_RMW(nand_fetch) VERIF_RMW(exchange_n)
#undef VERIF_RMW
	template<typename P> inline auto load_n(P p, int mo) { dsched::point(); auto r = __atomic_load_n(p, mo); rel_of(p).on_load((std::memory_order)mo); vclock::mirror_read(p, (std::memory_order)mo); return r; }
	template<typename P, typename R> inline void load(P p, R ret, int mo) { dsched::point(); __atomic_load(p, ret, mo); rel_of(p).on_load((std::memory_order)mo); vclock::mirror_read(p, (std::memory_order)mo); }
	template<typename P, typename V> inline void store_n(P p, V v, int mo) { dsched::point(); rel_of(p).on_store((std::memory_order)mo); vclock::mirror_write(p, (std::memory_order)mo); __atomic_store_n(p, v, mo); }
	template<typename P, typename V> inline void store(P p, V v, int mo) { dsched::point(); rel_of(p).on_store((std::memory_order)mo); vclock::mirror_write(p, (std::memory_order)mo); __atomic_store(p, v, mo); }
	template<typename P, typename V, typename R> inline void exchange(P p, V v, R ret, int mo) { dsched::point(); rel_of(p).on_rmw((std::memory_order)mo); vclock::mirror_write(p, (std::memory_order)mo); __atomic_exchange(p, v, ret, mo); vclock::mirror_read(p, (std::memory_order)mo); note_rmw(); }
	// compare-exchange: a read-modify-write with the success order when it succeeds, a load with the failure order when it fails
	template<typename P, typename E, typename V> inline bool compare_exchange_n(P p, E e, V v, bool weak, int smo, int fmo) {
		dsched::point();
		auto cur = __atomic_load_n(p, __ATOMIC_RELAXED);
		if(cur == *e) { rel_of(p).on_rmw((std::memory_order)smo); vclock::mirror_write(p, (std::memory_order)smo); bool ok = __atomic_compare_exchange_n(p, e, v, false, smo, fmo); vclock::mirror_read(p, (std::memory_order)smo); if(ok) note_rmw(); return ok; }
		(void)weak; *e = __atomic_load_n(p, fmo); rel_of(p).on_load((std::memory_order)fmo); vclock::mirror_read(p, (std::memory_order)fmo); return false;
	}
	template<typename P> inline bool test_and_set(P p, int mo) { dsched::point(); rel_of(p).on_rmw((std::memory_order)mo); vclock::mirror_write(p, (std::memory_order)mo); bool r = __atomic_test_and_set(p, mo); vclock::mirror_read(p, (std::memory_order)mo); note_rmw(); return r; }
	template<typename P> inline void clear(P p, int mo) { dsched::point(); rel_of(p).on_store((std::memory_order)mo); vclock::mirror_write(p, (std::memory_order)mo); __atomic_clear(p, mo); }
	inline void thread_fence(int mo) { dsched::point(); __atomic_thread_fence(mo); vclock::on_fence((std::memory_order)mo); vclock::mirror_fence((std::memory_order)mo); }
}
#define __atomic_fetch_add(p, v, mo) hooks::fetch_add(p, v, mo)
#define __atomic_fetch_sub(p, v, mo) hooks::fetch_sub(p, v, mo)
#define __atomic_fetch_or(p, v, mo) hooks::fetch_or(p, v, mo)
#define __atomic_fetch_and(p, v, mo) hooks::fetch_and(p, v, mo)
#define __atomic_fetch_xor(p, v, mo) hooks::fetch_xor(p, v, mo)
#define __atomic_fetch_nand(p, v, mo) hooks::fetch_nand(p, v, mo)
#define __atomic_add_fetch(p, v, mo) hooks::add_fetch(p, v, mo)
#define __atomic_sub_fetch(p, v, mo) hooks::sub_fetch(p, v, mo)
#define __atomic_or_fetch(p, v, mo) hooks::or_fetch(p, v, mo)
#define __atomic_and_fetch(p, v, mo) hooks::and_fetch(p, v, mo)
#define __atomic_xor_fetch(p, v, mo) hooks::xor_fetch(p, v, mo)
#define __atomic_nand_fetch(p, v, mo) hooks::nand_fetch(p, v, mo)
#define __atomic_load_n(p, mo) hooks::load_n(p, mo)
#define __atomic_load(p, r, mo) hooks::load(p, r, mo)
#define __atomic_store_n(p, v, mo) hooks::store_n(p, v, mo)
#define __atomic_store(p, v, mo) hooks::store(p, v, mo)
#define __atomic_exchange_n(p, v, mo) hooks::exchange_n(p, v, mo)
#define __atomic_exchange(p, v, r, mo) hooks::exchange(p, v, r, mo)
#define __atomic_compare_exchange_n(p, e, v, w, smo, fmo) hooks::compare_exchange_n(p, e, v, w, smo, fmo)
#define __atomic_test_and_set(p, mo) hooks::test_and_set(p, mo)
#define __atomic_clear(p, mo) hooks::clear(p, mo)
#define __atomic_thread_fence(mo) hooks::thread_fence(mo)
#define __builtin_ia32_pause() dsched::spin_yield()
#include <frg/spinlock.hpp>
#undef __atomic_fetch_add
#undef __atomic_fetch_sub
#undef __atomic_fetch_or
#undef __atomic_fetch_and
#undef __atomic_fetch_xor
#undef __atomic_fetch_nand
#undef __atomic_add_fetch
#undef __atomic_sub_fetch
#undef __atomic_or_fetch
#undef __atomic_and_fetch
#undef __atomic_xor_fetch
#undef __atomic_nand_fetch
#undef __atomic_load_n
#undef __atomic_load
#undef __atomic_store_n
#undef __atomic_store
#undef __atomic_exchange_n
#undef __atomic_exchange
#undef __atomic_compare_exchange_n
#undef __atomic_test_and_set
#undef __atomic_clear
#undef __atomic_thread_fence
#undef __builtin_ia32_pause
#include "../engine/verif.hpp"

const char *verif_harness = "spin_conc";
using namespace verif;
void verif_case_reset() { vclock::reset(); hooks::rels_clear(); hooks::g_rmw_seq = 0; }

namespace {
struct Shared {
	long data[4] = {0, 0, 0, 0};       // plain memory written inside the critical section (TSan's probe)
	vclock::Stamp last_section;         // position of the previous holder when it left the section (vclock.hpp)
	int inside = 0;                     // harness bookkeeping, only touched inside ignore regions
	std::vector<std::pair<uint64_t, int>> entries;   // (position of the lock() call's ticket draw, thread) in the order of entering the section
	std::string error;
};

template<typename Lock, bool Ticket>
void run_lock(Ctx &c, const std::vector<uint32_t> *explicit_choices) {
	auto &t = c.t;
	unsigned nthreads = 2 + t.pick(3);
	unsigned nacq[4]; unsigned total = 0;
	for(unsigned k = 0; k < nthreads; k++) { nacq[k] = 1 + t.pick(3); total += nacq[k]; }
	c.op("%s: %u threads x (%u,%u,%u,%u) acquisitions", Ticket ? "ticket_spinlock" : "simple_spinlock", nthreads, nacq[0], nthreads > 1 ? nacq[1] : 0, nthreads > 2 ? nacq[2] : 0, nthreads > 3 ? nacq[3] : 0);
	Lock *lk = c.make<Lock>();
	// Histories are not only the ones that start on a fresh lock: after 2^32 acquisitions the ticket
	// counters wrap. Such a history is reached by starting from the state it leaves behind (the two
	// 32-bit counters of the lock object), which is only done while the object has that layout.
	// (Probed, not assumed: one lock()/unlock() on a fresh object must turn its two words into {1,0} and then {1,1}.)
	bool layout_known = false;
	if constexpr(Ticket && sizeof(Lock) == 8) {
		static const bool probed = [] { alignas(8) unsigned char m[8]; uint32_t w[2]; Lock *l = new (m) Lock; l->lock(); memcpy(w, m, 8); bool a = w[0] == 1 && w[1] == 0; l->unlock(); memcpy(w, m, 8); return a && w[0] == 1 && w[1] == 1; }();
		layout_known = probed;
	}
	if(Ticket && layout_known) {
		static const uint32_t starts[] = {0, 0xFFFFFFFEu, 0xFFFFFFFFu, 0x7FFFFFFFu, 0xFFFFFFFDu};
		uint32_t st = starts[t.pick(5)];
		if(st) { uint32_t both[2] = {st, st}; memcpy((void *)lk, both, 8); c.tag("ticket-counters-near-wrap"); c.op("ticket counters start at %#x", st); }
	} else if(Ticket) { (void)t.pick(5); c.tag("ticket-layout-not-two-32-bit-counters"); }
	Shared *sh = c.make<Shared>();
	std::vector<std::function<void()>> bodies;
	for(unsigned k = 0; k < nthreads; k++) bodies.push_back([=] {
		for(unsigned i = 0; i < nacq[k]; i++) {
			hooks::draw_seq = 0;
			lk->lock();
			{ dsched::Ignore ig;
			  if(sh->inside++ && sh->error.empty()) sh->error = "two threads are inside the critical section at once";
			  sh->entries.push_back({hooks::draw_seq, (int)k}); }
			bool locked = lk->is_locked();
			if(!vclock::hb(sh->last_section)) { dsched::Ignore ig; if(sh->error.empty()) sh->error = "the previous critical section does not happen before this one: the acquiring loads read from no release sequence (C++20 [intro.races]/5) headed by the previous holder's unlock"; }
			for(int j = 0; j < 4; j++) sh->data[j] += 1;       // plain accesses: a race here means the lock does not order them
			dsched::point();
			for(int j = 0; j < 4; j++) sh->data[j] += 1;
			sh->last_section = vclock::now();
			{ dsched::Ignore ig; sh->inside--; (void)locked; }     // is_locked() is not part of C12 (and reads false across the ticket wrap-around): not asserted
			lk->unlock();
		}
	});
	size_t ci = 0;
	unsigned smode = explicit_choices ? 0 : t.pick(5);
	if(!explicit_choices) c.tagf("sched-mode-%u", smode);
	auto tape_choose = dsched::make_chooser(t, smode);
	auto choose = [&](size_t n) -> uint32_t {
		if(explicit_choices) return ci < explicit_choices->size() ? (*explicit_choices)[ci++] : 0;
		return tape_choose(n);
	};
	auto r = dsched::run(bodies, choose, 50000);
	VCHECK(c, "C12", r.verdict.empty(), "%s: %s after %llu steps: a waiter never gets the lock although the holder released it", Ticket ? "ticket_spinlock" : "simple_spinlock", r.verdict.c_str(), (unsigned long long)r.steps);
	VCHECK(c, "C12", sh->error.empty(), "%s", sh->error.c_str());
	VCHECK(c, "C12", sh->entries.size() == total && sh->data[0] == 2 * (long)total && sh->data[3] == 2 * (long)total, "%zu of %u critical sections ran, data = %ld", sh->entries.size(), total, sh->data[0]);
	// ticket order = the order in which the lock() calls drew their tickets (their first successful read-modify-write on the lock)
	if(Ticket) for(size_t i = 1; i < sh->entries.size(); i++) {
		if(!sh->entries[i].first || !sh->entries[i - 1].first) { c.tag("ticket-draw-not-observed"); continue; }
		VCHECK(c, "C12", sh->entries[i].first > sh->entries[i - 1].first, "ticket order violated: thread %d, which drew its ticket as read-modify-write #%llu, entered the section right after thread %d, which drew its ticket later (#%llu)",
				sh->entries[i].second, (unsigned long long)sh->entries[i].first, sh->entries[i - 1].second, (unsigned long long)sh->entries[i - 1].first);
	}
	c.check_san("C12");
	c.tagf("switches-%s", r.switches == 0 ? "0" : r.switches < 5 ? "1-4" : r.switches < 20 ? "5-19" : "20+");
	c.tag(Ticket ? "ticket" : "simple");
	c.nontrivial = r.switches >= 2;
	stats().notes["schedule points per case (last)"] = std::to_string(r.steps);
}
}

void verif_case(Ctx &c) {
	unsigned k = c.t.pick(2);
	if(k == 0) run_lock<frg::ticket_spinlock, true>(c, nullptr); else run_lock<frg::simple_spinlock, false>(c, nullptr);
}

// all interleavings (at atomic-access granularity) of 2 threads x 2 acquisitions and 3 threads x 1,
// by depth-first search over the scheduler's choice points with re-execution
void verif_enum(Enum &e) {
	for(uint32_t kind = 0; kind < 2; kind++) for(uint32_t shape = 0; shape < 2; shape++) for(uint32_t start = 0; start < 2; start++) {
		// tape prefix: kind, nthreads-2, then acquisitions-1 per thread, the start value of the ticket counters (0: fresh lock, 1: two tickets before the wrap), schedule mode 0 (uniform)
		std::vector<uint32_t> prefix = shape == 0 ? std::vector<uint32_t>{kind, 0, 1, 1, start, 0} : std::vector<uint32_t>{kind, 1, 0, 0, 0, start, 0};
		std::vector<uint32_t> choices; uint64_t runs = 0; bool more = true;
		uint64_t cap = e.tier == "thorough" ? 30000 : 2000;
		while(more && runs < cap) {
			std::vector<uint32_t> tape = prefix; tape.insert(tape.end(), choices.begin(), choices.end());
			if(!e.run(tape)) return;
			runs++;
			// next schedule in DFS order: bump the deepest choice that has an alternative left
			auto sizes = dsched::S().trace_sizes;
			choices.resize(sizes.size(), 0);
			int i = (int)sizes.size() - 1;
			while(i >= 0 && choices[i] + 1 >= sizes[i]) i--;
			if(i < 0) more = false; else { choices[i]++; choices.resize(i + 1); }
		}
		char name[220]; snprintf(name, sizeof name, "%s%s, %s: interleavings at atomic-access granularity%s", kind ? "simple_spinlock" : "ticket_spinlock", start ? " (ticket counters start at 0xfffffffe)" : "", shape == 0 ? "2 threads x 2 acquisitions" : "3 threads x 1 acquisition", more ? " (bounded by the run cap, not complete)" : "");
		e.scope(name, runs);
	}
}
