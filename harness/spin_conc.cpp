// C12 (first half): ticket_spinlock and simple_spinlock under a harness-owned scheduler + TSan.
// Whatever spinlock.hpp uses - the __atomic_* builtins and `pause` today, std::atomic, fences - is interposed by
// engine/verif_atomic_begin.hpp (schedule points, clocks) without touching frigg.
#include <atomic>
#include <vector>
#include <string>
#include <algorithm>
#include <cstring>
#include "../engine/dsched.hpp"
#include "../engine/verif_atomic_begin.hpp"
#include <frg/spinlock.hpp>
#include "../engine/verif_atomic_end.hpp"
#include "../engine/verif.hpp"

const char *verif_harness = "spin_conc";
using namespace verif;
void verif_case_reset() { vclock::reset(); }

namespace {
struct Shared {
	long data[4] = {0, 0, 0, 0};       // plain memory written inside the critical section (TSan's probe)
	vclock::Stamp last_section;         // position of the previous holder when it left the section (vclock.hpp)
	int inside = 0;                     // harness bookkeeping, only touched inside ignore regions
	std::vector<std::pair<uint64_t, int>> entries;   // (position of the lock() call's ticket draw, thread) in the order of entering the section
	std::string error;
};

template<typename Lock, bool Ticket>
void run_lock(Ctx &c, const std::vector<uint32_t> *explicit_choices) {
	auto &t = c.t;
	unsigned nthreads = 2 + t.pick(3);
	unsigned nacq[4]; unsigned total = 0;
	for(unsigned k = 0; k < nthreads; k++) { nacq[k] = 1 + t.pick(3); total += nacq[k]; }
	c.op("%s: %u threads x (%u,%u,%u,%u) acquisitions", Ticket ? "ticket_spinlock" : "simple_spinlock", nthreads, nacq[0], nthreads > 1 ? nacq[1] : 0, nthreads > 2 ? nacq[2] : 0, nthreads > 3 ? nacq[3] : 0);
	Lock *lk = c.make<Lock>();
	// Histories are not only the ones that start on a fresh lock: after 2^32 acquisitions the ticket
	// counters wrap. Such a history is reached by starting from the state it leaves behind (the two
	// 32-bit counters of the lock object), which is only done while the object has that layout.
	// (Probed, not assumed: one lock()/unlock() on a fresh object must turn its two words into {1,0} and then {1,1}.)
	bool layout_known = false;
	if constexpr(Ticket && sizeof(Lock) == 8) {
		static const bool probed = [] { alignas(8) unsigned char m[8]; uint32_t w[2]; Lock *l = new (m) Lock; l->lock(); memcpy(w, m, 8); bool a = w[0] == 1 && w[1] == 0; l->unlock(); memcpy(w, m, 8); return a && w[0] == 1 && w[1] == 1; }();
		layout_known = probed;
	}
	if(Ticket && layout_known) {
		static const uint32_t starts[] = {0, 0xFFFFFFFEu, 0xFFFFFFFFu, 0x7FFFFFFFu, 0xFFFFFFFDu};
		uint32_t st = starts[t.pick(5)];
		if(st) { uint32_t both[2] = {st, st}; memcpy((void *)lk, both, 8); c.tag("ticket-counters-near-wrap"); c.op("ticket counters start at %#x", st); }
	} else if(Ticket) { (void)t.pick(5); c.tag("ticket-layout-not-two-32-bit-counters"); }
	Shared *sh = c.make<Shared>();
	std::vector<std::function<void()>> bodies;
	for(unsigned k = 0; k < nthreads; k++) bodies.push_back([=] {
		for(unsigned i = 0; i < nacq[k]; i++) {
			vclock::draw_seq = 0;
			lk->lock();
			{ dsched::Ignore ig;
			  if(sh->inside++ && sh->error.empty()) sh->error = "two threads are inside the critical section at once";
			  sh->entries.push_back({vclock::draw_seq, (int)k}); }
			bool locked = lk->is_locked();
			if(!vclock::hb(sh->last_section)) { dsched::Ignore ig; if(sh->error.empty()) sh->error = "the previous critical section does not happen before this one: the acquiring loads read from no release sequence (C++20 [intro.races]/5) headed by the previous holder's unlock"; }
			for(int j = 0; j < 4; j++) sh->data[j] += 1;       // plain accesses: a race here means the lock does not order them
			dsched::point();
			for(int j = 0; j < 4; j++) sh->data[j] += 1;
			sh->last_section = vclock::now();
			{ dsched::Ignore ig; sh->inside--; (void)locked; }     // is_locked() is not part of C12 (and reads false across the ticket wrap-around): not asserted
			lk->unlock();
		}
	});
	size_t ci = 0;
	unsigned smode = explicit_choices ? 0 : dsched::pick_mode(t);
	if(!explicit_choices) { c.tagf("sched-mode-%u", smode & 0xff); if(smode & 0x100) c.tag("sched-mode-window-hunting"); }
	auto tape_choose = dsched::make_chooser(t, smode);
	auto choose = [&](size_t n) -> uint32_t {
		if(explicit_choices) return ci < explicit_choices->size() ? (*explicit_choices)[ci++] : 0;
		return tape_choose(n);
	};
	auto r = dsched::run(bodies, choose, 50000);
	VCHECK(c, "C12", r.verdict.empty(), "%s: %s after %llu steps: a waiter never gets the lock although the holder released it", Ticket ? "ticket_spinlock" : "simple_spinlock", r.verdict.c_str(), (unsigned long long)r.steps);
	VCHECK(c, "C12", sh->error.empty(), "%s", sh->error.c_str());
	VCHECK(c, "C12", sh->entries.size() == total && sh->data[0] == 2 * (long)total && sh->data[3] == 2 * (long)total, "%zu of %u critical sections ran, data = %ld", sh->entries.size(), total, sh->data[0]);
	// ticket order = the order in which the lock() calls drew their tickets (their first successful read-modify-write on the lock)
	if(Ticket) for(size_t i = 1; i < sh->entries.size(); i++) {
		if(!sh->entries[i].first || !sh->entries[i - 1].first) { c.tag("ticket-draw-not-observed"); continue; }
		VCHECK(c, "C12", sh->entries[i].first > sh->entries[i - 1].first, "ticket order violated: thread %d, which drew its ticket as read-modify-write #%llu, entered the section right after thread %d, which drew its ticket later (#%llu)",
				sh->entries[i].second, (unsigned long long)sh->entries[i].first, sh->entries[i - 1].second, (unsigned long long)sh->entries[i - 1].first);
	}
	c.check_san("C12");
	c.tagf("switches-%s", r.switches == 0 ? "0" : r.switches < 5 ? "1-4" : r.switches < 20 ? "5-19" : "20+");
	c.tag(Ticket ? "ticket" : "simple");
	c.nontrivial = r.switches >= 2;
	stats().notes["schedule points per case (last)"] = std::to_string(r.steps);
}
}

void verif_case(Ctx &c) {
	unsigned k = c.t.pick(2);
	if(k == 0) run_lock<frg::ticket_spinlock, true>(c, nullptr); else run_lock<frg::simple_spinlock, false>(c, nullptr);
}

// all interleavings (at atomic-access granularity) of 2 threads x 2 acquisitions and 3 threads x 1,
// by depth-first search over the scheduler's choice points with re-execution
void verif_enum(Enum &e) {
	for(uint32_t kind = 0; kind < 2; kind++) for(uint32_t shape = 0; shape < 2; shape++) for(uint32_t start = 0; start < 2; start++) {
		// tape prefix: kind, nthreads-2, then acquisitions-1 per thread, the start value of the ticket counters (0: fresh lock, 1: two tickets before the wrap), schedule mode 0 (uniform)
		std::vector<uint32_t> prefix = shape == 0 ? std::vector<uint32_t>{kind, 0, 1, 1, start, 0} : std::vector<uint32_t>{kind, 1, 0, 0, 0, start, 0};
		std::vector<uint32_t> choices; uint64_t runs = 0; bool more = true;
		uint64_t cap = e.tier == "thorough" ? 30000 : 2000;
		while(more && runs < cap) {
			std::vector<uint32_t> tape = prefix; tape.insert(tape.end(), choices.begin(), choices.end());
			if(!e.run(tape)) return;
			runs++;
			// next schedule in DFS order: bump the deepest choice that has an alternative left
			auto sizes = dsched::S().trace_sizes;
			choices.resize(sizes.size(), 0);
			int i = (int)sizes.size() - 1;
			while(i >= 0 && choices[i] + 1 >= sizes[i]) i--;
			if(i < 0) more = false; else { choices[i]++; choices.resize(i + 1); }
		}
		char name[220]; snprintf(name, sizeof name, "%s%s, %s: interleavings at atomic-access granularity%s", kind ? "simple_spinlock" : "ticket_spinlock", start ? " (ticket counters start at 0xfffffffe)" : "", shape == 0 ? "2 threads x 2 acquisitions" : "3 threads x 1 acquisition", more ? " (bounded by the run cap, not complete)" : "");
		e.scope(name, runs);
	}
}
